import PyrexVerif.Proofs.H5FileGenCount
import PyrexVerif.Proofs.H5Source
/-!
# C12 — every way of reading or continuing a file yields the same event stream

Model: `PyrexVerif/D/H5.lean` (`EventIterator` state machine with chunk loading, `HDF5Reader`
`__iter__` / `__getitem__` dispatch, append-mode `open`, `FileGenerator`).  The sequential pass is
`[getEvent f 0, …, getEvent f (n-1)]` (the rows the index table addresses; by `C11_round_trip` each
event's own data).  All theorems hold for every add / reject / reopen history and every option set
that records particles, with no bound on the file length.
-/
open H5

/-- iteration with any chunk size (`slice_range = None` or `≥ 1`) is the sequential pass and ends
with `StopIteration` -/
theorem C12_iterate_eq_sequential (o : Opts) (hA : AlwaysParticles o) (ops : List Op) (sr : Option Int)
    (hsr : ∀ k, sr = some k → 1 ≤ k) :
    iterAll (run o ops) sr =
      ((List.range (numEvents (run o ops))).map (fun i t => getEvent (run o ops) i t), Err.stop) :=
  iterAll_eq (good_run hA ops).rd sr hsr

/-- `f[key]` for `-n ≤ key < n` is event `key mod n` of the sequential pass -/
theorem C12_getitem_int (o : Opts) (hA : AlwaysParticles o) (ops : List Op) (key : Int)
    (h1 : -(numEvents (run o ops) : Int) ≤ key) (h2 : key < numEvents (run o ops)) :
    getitemInt (run o ops) key =
      .ok (fun t => getEvent (run o ops) (key % (numEvents (run o ops) : Int)).toNat t) :=
  getitemInt_eq (good_run hA ops).rd key h1 h2

/-- … and `IndexError` outside that range -/
theorem C12_getitem_int_out_of_range (o : Opts) (hA : AlwaysParticles o) (ops : List Op) (key : Int)
    (hn : 0 < numEvents (run o ops))
    (h : key < -(numEvents (run o ops) : Int) ∨ (numEvents (run o ops) : Int) ≤ key) :
    getitemInt (run o ops) key = .error .index :=
  getitemInt_out (good_run hA ops).rd hn key h

/-- `f[a':b':c']` — bounds given as `None`, non-negative or negative spellings that normalise to
`0 ≤ a < b ≤ n`, step `c ≥ 1` (or `None`), file chunk size `None` or `≥ 1` — yields the events
`a, a+c, … < b` of the sequential pass, then `StopIteration` -/
theorem C12_getitem_slice (o : Opts) (hA : AlwaysParticles o) (ops : List Op) (sr : Option Int)
    (oa ob oc : Option Int) (a b c : Nat) (hsr : ∀ k, sr = some k → 1 ≤ k)
    (ha : normIdx (oa.getD 0) (numEvents (run o ops)) = a)
    (hb : normIdx (ob.getD (numEvents (run o ops))) (numEvents (run o ops)) = b)
    (hc : oc.getD 1 = c) (hab : a < b) (hbn : b ≤ numEvents (run o ops)) (hc0 : 0 < c) :
    getitemSlice (run o ops) sr oa ob oc =
      ((List.range ((b - a + c - 1) / c)).map (fun k t => getEvent (run o ops) (a + k * c) t), Err.stop) := by
  have := getitemSlice_eq (good_run hA ops).rd sr oa ob oc hsr ha hb hc hab hbn hc0
  rw [this]; simp [strided, Function.comp_def]

/-- a history written in several append-mode sessions (`reopen` anywhere, also after rejected adds)
reads back like the same history written in one session -/
theorem C12_append_eq_single (o : Opts) (hA : AlwaysParticles o) (ops : List Op) :
    numEvents (run o ops) = numEvents (run o (ops.filter (fun op => !isReopen op))) ∧
    ∀ i t, getEvent (run o ops) i t = getEvent (run o (ops.filter (fun op => !isReopen op))) i t := by
  have h1 := rt_run hA ops
  have h2 := rt_run hA (ops.filter (fun op => !isReopen op))
  have hacc : accepted (ops.filter (fun op => !isReopen op)) = accepted ops := accepted_filter_reopen 0 ops
  rw [hacc] at h2
  exact ⟨by unfold numEvents; rw [h1.1, h2.1], fun i t => rt_same h1 h2 i t⟩

/-- … and so does every access path on it -/
theorem C12_append_iterate (o : Opts) (hA : AlwaysParticles o) (ops : List Op) (sr : Option Int)
    (hsr : ∀ k, sr = some k → 1 ≤ k) :
    iterAll (run o ops) sr = iterAll (run o (ops.filter (fun op => !isReopen op))) sr := by
  rw [C12_iterate_eq_sequential o hA ops sr hsr, C12_iterate_eq_sequential o hA _ sr hsr,
    (C12_append_eq_single o hA ops).1]
  congr 1
  apply List.map_congr_left
  intro i _
  funext t
  exact (C12_append_eq_single o hA ops).2 i t

/-- FileGenerator, chunk arithmetic: the chunk `_load_events` reads at `_event_index = start` with
`slice_range = sr` (`self._file[start:min(start+sr, n)]` on a reader opened with that `slice_range`)
is exactly the events `start … min(start+sr, n) - 1` of the sequential pass, in order -/
theorem C12_filegen_chunk (o : Opts) (hA : AlwaysParticles o) (ops : List Op) (sr start : Nat)
    (hsr : 1 ≤ sr) (hstart : start < numEvents (run o ops)) :
    getitemSlice (run o ops) (some (sr : Int)) (some (start : Int))
        (some ((min (start + sr) (numEvents (run o ops)) : Nat) : Int)) none =
      ((List.range (min (start + sr) (numEvents (run o ops)) - start)).map
          (fun k t => getEvent (run o ops) (start + k) t), Err.stop) := by
  have := C12_getitem_slice o hA ops (some (sr : Int)) (some (start : Int))
    (some ((min (start + sr) (numEvents (run o ops)) : Nat) : Int)) none start
    (min (start + sr) (numEvents (run o ops))) 1
    (by intro k h; cases h; omega) (by simp [normIdx]; omega) (by simp [normIdx]; omega) rfl
    (by omega) (by omega) (by decide)
  rw [this]; simp

/-- `FileGenerator(files, slice_range=sr)`: for every non-empty list of files, each written by any
add / reject / reopen history under particle-recording options and holding at least one event, and
every `slice_range ≥ 1`, the constructor succeeds and successive `create_event()` calls return the
particle tables of file 1's sequential pass, then file 2's, …, in order, and then raise
`StopIteration` (`frac` is the per-event share of `total_thrown`; it does not influence the
replay; `count` is `C12_filegen_count`). -/
theorem C12_filegen_replays (files : List File) (sr : Nat) (frac : Frac)
    (hfiles : ∀ f ∈ files, ∃ o ops, AlwaysParticles o ∧ f = run o ops ∧ 0 < numEvents f)
    (hne : files ≠ []) (hsr : 1 ≤ sr) :
    ∃ g, fgInit files sr frac = .ok g ∧
      ∀ fuel, ((files.map pevs).flatten).length < fuel →
        (fgAll files sr frac fuel g).1.map Prod.fst = (files.map pevs).flatten ∧
        (fgAll files sr frac fuel g).2 = Err.stop := by
  apply filegen_replays frac _ hne hsr
  intro f hf
  obtain ⟨o, ops, hA, rfl, hn⟩ := hfiles f hf
  exact ⟨⟨o, good_run hA ops⟩, hn⟩

/-- `FileGenerator.count` after every `create_event()`: the finished files contribute the
`total_events_thrown` of their last event (`lastc`, which is the file's `total_thrown` whenever
`frac (n-1) n T = T`, as for the float formula `int(n/n*T)`), the current file the share of the event
just returned (`cntSpec`).  `frac` is `EventIterator.total_events_thrown` as a function of
(event number, number of events, total_thrown); the theorem holds for every such function. -/
theorem C12_filegen_count (files : List File) (sr : Nat) (frac : Frac)
    (hfiles : ∀ f ∈ files, ∃ o ops, AlwaysParticles o ∧ f = run o ops ∧ 0 < numEvents f)
    (hne : files ≠ []) (hsr : 1 ≤ sr) :
    ∃ g, fgInit files sr frac = .ok g ∧
      ∀ fuel, ((files.map pevs).flatten).length < fuel →
        (fgAll files sr frac fuel g).1.map Prod.snd = cntSpec frac 0 files := by
  apply filegen_count frac _ hne hsr
  intro f hf
  obtain ⟨o, ops, hA, rfl, hn⟩ := hfiles f hf
  exact ⟨⟨o, good_run hA ops⟩, hn⟩

/-- with a share function that gives the last event the whole `total_thrown`, `count` after the last
event of the last file is the sum of the files' `total_thrown` -/
theorem C12_filegen_count_total (files : List File) (frac : Frac)
    (hlast : ∀ n T, 0 < n → frac (n - 1) n T = T) (hpos : ∀ f ∈ files, 0 < f.index.length) (base : Nat) :
    (cntSpec frac base files).getLast?.getD base = base + lsum (files.map (fun f => f.thrown.getD 0)) := by
  induction files generalizing base with
  | nil => simp [cntSpec, lsum]
  | cons f r ih =>
    have hf := hpos f (by simp)
    have hl : lastc frac f = f.thrown.getD 0 := hlast _ _ hf
    have h2 := ih (fun f' hf' => hpos f' (List.mem_cons_of_mem _ hf')) (base + lastc frac f)
    have hA : ((pcnts frac f).map (base + ·)).getLast? = some (base + lastc frac f) := by
      unfold pcnts lastc
      rw [List.getLast?_map, List.getLast?_map, List.getLast?_range]
      have : ¬ f.index.length = 0 := by omega
      simp [this]
    rw [List.map_cons, lsum_cons]
    unfold cntSpec
    rw [List.getLast?_append, hA]
    cases hB : (cntSpec frac (base + lastc frac f) r).getLast? with
    | none => rw [hB] at h2; simp at h2 ⊢; omega
    | some x => rw [hB] at h2; simp at h2 ⊢; omega

/-- `EventIterator._load_data` and `__next__` in the source are statement for statement what
`loadTable` / `next` model (regenerated from `pyrex/io.py` on every run): one block read from the
smallest start to the furthest row any cell of the chunk uses (the F20 repair), every event cut at
`start - tmp_start` (the F8 repair), chunk end `min(start + slice_range, max_events)`, counter reset
on reload.  Any edit of these statements in `/repo` breaks this theorem. -/
theorem C12_load_cut_matches_source :
    H5Gen.loadCut = modelLoadCut ∧ H5Gen.nextShape = modelNextShape := ⟨rfl, rfl⟩

/-- the `count` setter of a `FileGenerator`: right after `generator.count = c` the count reads `c`
(for `c` at least the part already attributed to files), and because `create_event` only ever
overwrites the slots of files (`counts[fileIdx]`, `fileIdx ≥ 1`), every later count is shifted by
the same amount: the total is always slot 0 plus the per-file slots -/
theorem C12_filegen_count_setter (g : FG) (c : Nat) (hne : g.counts ≠ [])
    (hc : lsum (g.counts.drop 1) ≤ c) :
    lsum (fgSetCount g c).counts = c ∧
    ∀ x, lsum (g.counts.set 0 x) = x + lsum (g.counts.drop 1) := by
  cases hcs : g.counts with
  | nil => exact absurd hcs hne
  | cons a rest =>
    have hset : ∀ x, lsum ((a :: rest).set 0 x) = x + lsum ((a :: rest).drop 1) := by
      intro x; simp only [List.set_cons_zero, List.drop_succ_cons, List.drop_zero]; exact lsum_cons x rest
    refine ⟨?_, hset⟩
    have h1 : (fgSetCount g c).counts = (a :: rest).set 0 (c - lsum ((a :: rest).drop 1)) := by
      simp [fgSetCount, hcs, lsum]
    rw [hcs] at hc
    rw [h1, hset]
    omega

example : lsum (fgSetCount ⟨2, 3, [], [], [0, 4, 2, 0]⟩ 100).counts = 100 := by decide

/-- event handles are independent: in the model an iterator is a value, so in a session holding several
handles (`hs`) a step of handle `i` (creation, `next`, chunk reload — any new state `it'`) leaves
what every other handle `j` shows unchanged.  That the CODE behaves like this (no storage shared
between the iterators of a reader) is checked by the live-handle sessions of the correspondence run
and by the object-identity probe of the search. -/
theorem C12_handles_independent (hs : List It) (i j : Nat) (hij : i ≠ j) (it' : It) :
    ((hs.set i it')[j]?).map current = (hs[j]?).map current := by
  rw [List.getElem?_set_ne hij]

/-! ### Arbitrary index cells (analysis look-up tables indexed with `add_analysis_indices`) -/

/-- `_load_data` for one table is right for ARBITRARY index cells — several events sharing rows, cells
pointing back to earlier rows, overlapping ranges, no ordering whatsoever and no assumption on the
file: every event of a non-empty chunk `start, start+step, … < end` gets exactly the rows its own
cell addresses (what `f[i]` reads) -/
theorem C12_chunk_load_any_index (f : File) (t : Tbl) (s e c : Nat) (hne : strided s e c ≠ []) :
    loadTable f t s e c = some ((strided s e c).map (fun i => getEvent f i t)) :=
  loadTable_eq f t s e c hne

/-- hence iteration with any chunk size and every in-claim slice equal the sequential pass for ANY file
value (any index content in the columns that exist) — the only facts used are that tables without an
index column read as empty and that a file holding events has the particle group (`Rd f`) -/
theorem C12_access_paths_any_index (f : File) (hf : Rd f) (sr : Option Int) (hsr : ∀ k, sr = some k → 1 ≤ k) :
    iterAll f sr = ((List.range f.index.length).map (fun i t => getEvent f i t), Err.stop) ∧
    ∀ (oa ob oc : Option Int) (a b c : Nat), normIdx (oa.getD 0) f.index.length = a →
      normIdx (ob.getD f.index.length) f.index.length = b → oc.getD 1 = c → a < b → b ≤ f.index.length → 0 < c →
      getitemSlice f sr oa ob oc = ((strided a b c).map (fun i t => getEvent f i t), Err.stop) :=
  ⟨iterAll_eq hf sr hsr, fun oa ob oc a b c ha hb hc hab hbn hc0 => getitemSlice_eq hf sr oa ob oc hsr ha hb hc hab hbn hc0⟩

/-- `_load_data` with the block end it had before the repair 4e94c15 (end of the last cell with the
largest start) -/
def loadTableMaxStart (f : File) (t : Tbl) (s e step : Nat) : Option (List (List Row)) :=
  let cells := (strided s e step).map (fun i => (f.index.getD i IxRow.default) t)
  match minStart cells, pickEnd cells with
  | some ts, some c =>
    let tmp := ((f.rows t).drop ts).take (c.1 + c.2 - ts)
    some (cells.map (fun sl => (tmp.drop (sl.1 - ts)).take sl.2))
  | _, _ => none

/-- a look-up table of 6 rows indexed out of event order: cells (0,5), (3,1), (1,2), (4,1), (0,1) -/
def c12Lookup : File :=
  { File.empty with
    rows := fun | .noise => (List.range 6).map (Row.data 0) | _ => [],
    exists_ := fun | .noise => true | _ => false,
    cols := [.noise],
    index := [(0, 5), (3, 1), (1, 2), (4, 1), (0, 1)].map (fun v => fun | .noise => v | _ => (0, 0)),
    nEvents := 5 }

/-- the minimal input of F20: with chunks of two events the old block end loses the last row of
event 0 (it reaches further than the event with the largest start), the repaired code returns all
five rows, as `f[0]` does -/
theorem C12_block_end_witness :
    (loadTableMaxStart c12Lookup .noise 0 2 1).map (fun l => (l.getD 0 []).length) = some 4 ∧
    (loadTable c12Lookup .noise 0 2 1).map (fun l => (l.getD 0 []).length) = some 5 ∧
    (getEvent c12Lookup 0 .noise).length = 5 ∧
    loadTable c12Lookup .noise 0 5 2 = some [getEvent c12Lookup 0 .noise, getEvent c12Lookup 2 .noise, getEvent c12Lookup 4 .noise] := by
  decide

/-! ### The unrepaired `_load_data` (cumulative cut) is wrong: sanity check that the theorems are not vacuous -/

/-- `_load_data` as it was before the F8 repair: the loaded block is cut by cumulative lengths -/
def loadTableCumulative (f : File) (t : Tbl) (s e step : Nat) : Option (List (List Row)) :=
  let cells := (strided s e step).map (fun i => (f.index.getD i IxRow.default) t)
  match minStart cells, pickEnd cells with
  | some ts, some c =>
    let tmp := ((f.rows t).drop ts).take (c.1 + c.2 - ts)
    some ((cells.foldl (fun (acc : List (List Row) × Nat) (sl : Cell) =>
      (acc.1 ++ [(tmp.drop acc.2).take sl.2], acc.2 + sl.2)) ([], 0)).1)
  | _, _ => none

def c12Opts : Opts :=
  { write := fun | .particles => true | _ => false, trigOnly := trigOnlyOf (.bool false) }

/-- events with 1, 3, 2, 1 particles -/
def c12Hist : List Op :=
  [.ok ⟨1, true, 0, 0, false, 1⟩, .ok ⟨3, true, 0, 0, false, 1⟩, .ok ⟨2, true, 0, 0, false, 1⟩,
   .ok ⟨1, true, 0, 0, false, 1⟩]

example : AlwaysParticles c12Opts := ⟨rfl, rfl⟩

/-- step 2 over a file whose events have 1,3,2,1 particles: the cumulative cut hands event 2 the rows
of event 1, the per-event offsets return event 2's own rows -/
theorem C12_step2_witness :
    loadTableCumulative (run c12Opts c12Hist) .particles 0 4 2 =
      some [[.data 0 0], [.data 1 0, .data 1 1]] ∧
    loadTable (run c12Opts c12Hist) .particles 0 4 2 =
      some [[.data 0 0], [.data 2 0, .data 2 1]] ∧
    getEvent (run c12Opts c12Hist) 2 .particles = [.data 2 0, .data 2 1] := by decide

/-- the same defect after a rejected add, with step 1: the orphan rows shift every later event -/
theorem C12_orphan_witness :
    let f := run c12Opts [.ok ⟨1, true, 0, 0, false, 1⟩, .rejected ⟨2, true, 0, 0, false, 1⟩ 4, .ok ⟨1, true, 0, 0, false, 1⟩]
    loadTableCumulative f .particles 0 2 1 = some [[.data 0 0], [.data 1 0]] ∧
    loadTable f .particles 0 2 1 = some [[.data 0 0], [.data 2 0]] := by decide

/-! ### Non-vacuity -/

example : getitemSlice (run c12Opts c12Hist) (some 3) (some (-4)) none (some 2) =
    ([fun t => getEvent (run c12Opts c12Hist) 0 t, fun t => getEvent (run c12Opts c12Hist) 2 t], Err.stop) := by
  have := C12_getitem_slice c12Opts ⟨rfl, rfl⟩ c12Hist (some 3) (some (-4)) none (some 2) 0 4 2
    (by intro k h; cases h; decide) (by decide) (by decide) rfl (by decide) (by decide) (by decide)
  rw [this]; rfl

example : numEvents (run c12Opts c12Hist) = 4 := by decide
example : (getitemInt (run c12Opts c12Hist) (-3)).toOption.map (fun ev => ev .particles)
    = some [.data 1 0, .data 1 1, .data 1 2] := by decide

/-- two files (the second written with a rejected add and in two sessions), chunk size 3 -/
example :
    let f1 := run c12Opts c12Hist
    let f2 := run c12Opts [.ok ⟨2, true, 0, 0, false, 4⟩, .rejected ⟨1, true, 0, 0, false, 1⟩ 3, .reopen, .ok ⟨1, false, 0, 0, false, 2⟩]
    (fgInit [f1, f2] 3 (fun k n T => (k + 1) * T / n)).toOption.map
        (fun g => (fgAll [f1, f2] 3 (fun k n T => (k + 1) * T / n) 8 g)) =
      some ([([.data 0 0], 1), ([.data 1 0, .data 1 1, .data 1 2], 2), ([.data 2 0, .data 2 1], 3), ([.data 3 0], 4),
             ([.data 0 0, .data 0 1], 7), ([.data 2 0], 10)], Err.stop) := by decide

/-- the share function `(k+1)·T / n` (exact integer arithmetic) meets the hypothesis of
`C12_filegen_count_total`: the last event of a file carries the whole `total_thrown` -/
example : ∀ n T, 0 < n → (fun k n T => (k + 1) * T / n) (n - 1) n T = T := by
  intro n T hn
  show (n - 1 + 1) * T / n = T
  rw [Nat.sub_add_cancel hn, Nat.mul_comm, Nat.mul_div_cancel _ hn]

/-- `C12_iterate_eq_sequential`, `C12_getitem_int_out_of_range`, `C12_append_eq_single` on a concrete
history with a rejected add and two sessions -/
example :
    let ops : List Op := [.ok ⟨2, true, 0, 0, false, 1⟩, .rejected ⟨3, true, 0, 0, false, 1⟩ 4, .reopen, .ok ⟨1, true, 0, 0, false, 1⟩]
    (iterAll (run c12Opts ops) (some 1)).1.map (fun ev => ev .particles) = [[.data 0 0, .data 0 1], [.data 2 0]] ∧
    (getitemInt (run c12Opts ops) 2).toOption.isNone = true ∧
    numEvents (run c12Opts ops) = numEvents (run c12Opts (ops.filter (fun op => !isReopen op))) := by decide

/-- the error of an `Except` value, if any -/
def errOf {α : Type} : Except Err α → Option Err
  | .error e => some e
  | .ok _ => none

/-- outside the claim (`slice_range ≥ 1`): with `slice_range = 0` the first `__next__` loads an empty
chunk and `np.min` of nothing raises `ValueError` — the model rejects in the same way, before any
event is yielded -/
theorem C12_slice_range_zero_raises :
    (iterAll (run c12Opts c12Hist) (some 0)).1.length = 0 ∧ (iterAll (run c12Opts c12Hist) (some 0)).2 = Err.value ∧
    (getitemSlice (run c12Opts c12Hist) (some 0) (some 0) (some 2) none).2 = Err.value := by decide

/-- `FileGenerator([])` raises `StopIteration` in the constructor; `slice_range = 0` makes the first
`self._file[0:0]` raise `IndexError` there (any share function; shown for the integer one) -/
theorem C12_filegen_degenerate :
    errOf (fgInit [] 3 (fun k n T => (k + 1) * T / n)) = some Err.stop ∧
    errOf (fgInit [run c12Opts c12Hist] 0 (fun k n T => (k + 1) * T / n)) = some Err.index := by decide
