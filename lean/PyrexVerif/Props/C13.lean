import PyrexVerif.R.Gen
import PyrexVerif.D.ListGen
import PyrexVerif.Proofs.GenSlab
import Mathlib.MeasureTheory.Measure.Lebesgue.Basic
import Mathlib.Analysis.SpecialFunctions.Trigonometric.Basic
import Mathlib.Analysis.SpecialFunctions.Sqrt
import Mathlib.Tactic.Linarith
import Mathlib.Tactic.NormNum
import Mathlib.Tactic.Ring
import Mathlib.Tactic.FieldSimp
import Mathlib.Tactic.LinearCombination
import Mathlib.Tactic.Positivity
/-!
# C13 — generators throw uniform, isotropic, correctly weighted neutrinos; `count` counts throws

Theorems about the ℝ-reading `PyrexR` of `twin/Gen.body` (samplers as functions of the uniform tape,
exit-point geometry, weights, `create_event`) and about `PyrexD.ListGen`.  Constants
(`PyrexGen.Generation`) are regenerated from `pyrex/generation.py` on every run.
-/
open PyrexR

/-! ## samplers -/

/-- cylinder: the vertex has radius `dr·√u₁`, height `−dz·u₃`, and lies in the cylinder for draws in `[0,1]` -/
theorem C13_cyl_vertex_inside (dr dz u1 u2 u3 : ℝ) (hdr : 0 ≤ dr) (hdz : 0 ≤ dz)
    (h1 : 0 ≤ u1 ∧ u1 ≤ 1) (h3 : 0 ≤ u3 ∧ u3 ≤ 1) :
    (cylVertex dr dz u1 u2 u3).x ^ 2 + (cylVertex dr dz u1 u2 u3).y ^ 2 = dr ^ 2 * u1 ∧
    (cylVertex dr dz u1 u2 u3).x ^ 2 + (cylVertex dr dz u1 u2 u3).y ^ 2 ≤ dr ^ 2 ∧
    (cylVertex dr dz u1 u2 u3).z = -dz * u3 ∧
    -dz ≤ (cylVertex dr dz u1 u2 u3).z ∧ (cylVertex dr dz u1 u2 u3).z ≤ 0 := by
  simp only [cylVertex, Rsqrt, Rcos, Rsin, Rpi]
  have hs : Real.sqrt u1 ^ 2 = u1 := Real.sq_sqrt h1.1
  have hcs := Real.cos_sq_add_sin_sq (2 * Real.pi * u2)
  have hr : (dr * Real.sqrt u1 * Real.cos (2 * Real.pi * u2)) ^ 2 + (dr * Real.sqrt u1 * Real.sin (2 * Real.pi * u2)) ^ 2
      = dr ^ 2 * u1 := by
    have : (dr * Real.sqrt u1 * Real.cos (2 * Real.pi * u2)) ^ 2 + (dr * Real.sqrt u1 * Real.sin (2 * Real.pi * u2)) ^ 2
        = dr ^ 2 * Real.sqrt u1 ^ 2 * (Real.cos (2 * Real.pi * u2) ^ 2 + Real.sin (2 * Real.pi * u2) ^ 2) := by ring
    rw [this, hcs, hs]; ring
  refine ⟨hr, ?_, trivial, ?_, ?_⟩
  · rw [hr]; nlinarith [sq_nonneg dr]
  · nlinarith
  · nlinarith

/-- radius law (inverse CDF of a uniform disc): the set of draws `u ∈ [0,1]` that put the vertex within radius
`ρ ≤ dr` has Lebesgue measure `(ρ/dr)²` — the area fraction of the disc of radius `ρ` -/
theorem C13_radius_cdf (dr ρ : ℝ) (hdr : 0 < dr) (hρ : 0 ≤ ρ) (hρ' : ρ ≤ dr) :
    MeasureTheory.volume {u : ℝ | 0 ≤ u ∧ u ≤ 1 ∧ dr * Real.sqrt u ≤ ρ} = ENNReal.ofReal ((ρ / dr) ^ 2) := by
  have hq : ρ / dr ≤ 1 := by rw [div_le_one hdr]; exact hρ'
  have hq0 : 0 ≤ ρ / dr := div_nonneg hρ hdr.le
  have : {u : ℝ | 0 ≤ u ∧ u ≤ 1 ∧ dr * Real.sqrt u ≤ ρ} = Set.Icc 0 ((ρ / dr) ^ 2) := by
    ext u
    simp only [Set.mem_setOf_eq, Set.mem_Icc]
    constructor
    · rintro ⟨h0, _, h⟩
      refine ⟨h0, ?_⟩
      have h' : Real.sqrt u ≤ ρ / dr := by rw [le_div_iff₀ hdr]; linarith
      calc u = Real.sqrt u ^ 2 := (Real.sq_sqrt h0).symm
        _ ≤ (ρ / dr) ^ 2 := by apply pow_le_pow_left₀ (Real.sqrt_nonneg u) h'
    · rintro ⟨h0, h⟩
      have hle1 : (ρ / dr) ^ 2 ≤ 1 := by nlinarith
      refine ⟨h0, by linarith, ?_⟩
      have : Real.sqrt u ≤ ρ / dr := by
        rw [show ρ / dr = Real.sqrt ((ρ / dr) ^ 2) from (Real.sqrt_sq hq0).symm]
        exact Real.sqrt_le_sqrt h
      calc dr * Real.sqrt u ≤ dr * (ρ / dr) := by apply mul_le_mul_of_nonneg_left this hdr.le
        _ = ρ := by field_simp
  rw [this, Real.volume_Icc]; simp

/-- uniform-in-volume, proved part: radius law (above), and the height and azimuth are affine images of their own
draws — `z = −dz·u₃`, `θ = 2π·u₂` — so they are uniform on `[−dz,0]`, `[0,2π)` and independent of the radius draw;
for the box every coordinate is `low + (high−low)·u` with its own draw and stays within the sides.
(Not proved: the change of variables `(r,θ,z) ↦ (x,y,z)` turning this product law into Lebesgue measure on the cylinder.) -/
theorem C13_vertex_uniform_partial (dx dy dz u1 u2 u3 : ℝ) (hx : 0 ≤ dx) (hy : 0 ≤ dy) (hz : 0 ≤ dz)
    (h1 : 0 ≤ u1 ∧ u1 ≤ 1) (h2 : 0 ≤ u2 ∧ u2 ≤ 1) (h3 : 0 ≤ u3 ∧ u3 ≤ 1) :
    (boxVertex dx dy dz u1 u2 u3).x = -dx / 2 + dx * u1 ∧ (boxVertex dx dy dz u1 u2 u3).y = -dy / 2 + dy * u2 ∧
    (boxVertex dx dy dz u1 u2 u3).z = -dz + dz * u3 ∧
    -dx / 2 ≤ (boxVertex dx dy dz u1 u2 u3).x ∧ (boxVertex dx dy dz u1 u2 u3).x ≤ dx / 2 ∧
    -dy / 2 ≤ (boxVertex dx dy dz u1 u2 u3).y ∧ (boxVertex dx dy dz u1 u2 u3).y ≤ dy / 2 ∧
    -dz ≤ (boxVertex dx dy dz u1 u2 u3).z ∧ (boxVertex dx dy dz u1 u2 u3).z ≤ 0 := by
  simp only [boxVertex, uniformLH]
  refine ⟨by ring, by ring, by ring, ?_, ?_, ?_, ?_, ?_, ?_⟩ <;> nlinarith [h1.1, h1.2, h2.1, h2.2, h3.1, h3.2]

/-- the direction is a unit vector with `cos θ = 2u₁ − 1` -/
theorem C13_dir_unit (u1 u2 : ℝ) (h1 : 0 ≤ u1 ∧ u1 ≤ 1) :
    dot3 (genDirection u1 u2) (genDirection u1 u2) = 1 ∧ (genDirection u1 u2).z = 2 * u1 - 1 ∧
    norm3 (genDirection u1 u2) = 1 ∧ PyrexR.normalizeE (genDirection u1 u2) = genDirection u1 u2 := by
  have hc : 0 ≤ 1 - (u1 * 2 - 1) * (u1 * 2 - 1) := by nlinarith [h1.1, h1.2]
  have hs := Real.mul_self_sqrt hc
  have hcs := Real.cos_sq_add_sin_sq (u2 * 2 * Real.pi)
  have hdot : dot3 (genDirection u1 u2) (genDirection u1 u2) = 1 := by
    simp only [dot3, genDirection, Rsqrt, Rcos, Rsin, Rpi]
    set s := Real.sqrt (1 - (u1 * 2 - 1) * (u1 * 2 - 1))
    have : s * Real.cos (u2 * 2 * Real.pi) * (s * Real.cos (u2 * 2 * Real.pi))
        + s * Real.sin (u2 * 2 * Real.pi) * (s * Real.sin (u2 * 2 * Real.pi)) + (u1 * 2 - 1) * (u1 * 2 - 1)
        = (s * s) * (Real.cos (u2 * 2 * Real.pi) ^ 2 + Real.sin (u2 * 2 * Real.pi) ^ 2) + (u1 * 2 - 1) * (u1 * 2 - 1) := by ring
    rw [this, hcs, hs]; ring
  have hn : norm3 (genDirection u1 u2) = 1 := by
    have : norm3 (genDirection u1 u2) = Real.sqrt (dot3 (genDirection u1 u2) (genDirection u1 u2)) := rfl
    rw [this, hdot, Real.sqrt_one]
  refine ⟨hdot, by simp only [genDirection]; ring, hn, ?_⟩
  unfold PyrexR.normalizeE
  rw [hn]; norm_num

/-- isotropy, proved part: `cos θ = 2u₁ − 1` is an affine image of its draw, so
`P(cos θ ≤ c) = (c+1)/2` (uniform on `[−1,1]`), and the azimuth `φ = 2π u₂` is an affine image of an independent draw.
(Not proved: that uniform `cos θ` × uniform `φ` is the normalised solid-angle measure.) -/
theorem C13_isotropic_partial (c : ℝ) (hc : -1 ≤ c ∧ c ≤ 1) :
    MeasureTheory.volume {u : ℝ | 0 ≤ u ∧ u ≤ 1 ∧ u * 2 - 1 ≤ c} = ENNReal.ofReal ((c + 1) / 2) := by
  have : {u : ℝ | 0 ≤ u ∧ u ≤ 1 ∧ u * 2 - 1 ≤ c} = Set.Icc 0 ((c + 1) / 2) := by
    ext u; simp only [Set.mem_setOf_eq, Set.mem_Icc]
    constructor
    · rintro ⟨a, _, b⟩; exact ⟨a, by linarith⟩
    · rintro ⟨a, b⟩; exact ⟨a, by linarith [hc.2], by linarith⟩
  rw [this, Real.volume_Icc]; simp

/-- flavour and ν/ν̄ follow the cumulative thresholds of the normalised ratio: the intervals of the flavour draw
are `[0,r₀)`, `[r₀,r₀+r₁)`, `[r₀+r₁,1)`, the antineutrino is chosen when the second draw is not below the
neutrino fraction of that flavour; the e-interval has measure `r₀`. -/
theorem C13_flavor_thresholds (f0 f1 f2 : ℝ) (cosmo : Bool) (uF uN : ℝ) :
    ((particleType f0 f1 f2 cosmo uF uN).1 = .e ↔ uF < f0 / (f0 + f1 + f2)) ∧
    ((particleType f0 f1 f2 cosmo uF uN).1 = .mu ↔
        ¬ uF < f0 / (f0 + f1 + f2) ∧ uF < f0 / (f0 + f1 + f2) + f1 / (f0 + f1 + f2)) ∧
    ((particleType f0 f1 f2 cosmo uF uN).1 = .tau ↔
        ¬ uF < f0 / (f0 + f1 + f2) ∧ ¬ uF < f0 / (f0 + f1 + f2) + f1 / (f0 + f1 + f2)) ∧
    (∀ i fl, (fl = Flavor.e ∧ i = 0 ∨ fl = Flavor.mu ∧ i = 1 ∨ fl = Flavor.tau ∧ i = 2) →
        (particleType f0 f1 f2 cosmo uF uN).1 = fl →
        ((particleType f0 f1 f2 cosmo uF uN).2 = true ↔ ¬ uN < nuFraction cosmo i)) := by
  unfold particleType
  by_cases h0 : uF < f0 / (f0 + f1 + f2)
  · simp only [h0, if_true]
    refine ⟨by simp, by simp, by simp, ?_⟩
    rintro i fl (⟨rfl, rfl⟩ | ⟨rfl, rfl⟩ | ⟨rfl, rfl⟩) hfl <;> simp at hfl ⊢
  · by_cases h1 : uF < f0 / (f0 + f1 + f2) + f1 / (f0 + f1 + f2)
    · simp only [h0, h1, if_true, if_false]
      refine ⟨by simp, by simp, by simp, ?_⟩
      rintro i fl (⟨rfl, rfl⟩ | ⟨rfl, rfl⟩ | ⟨rfl, rfl⟩) hfl <;> simp at hfl ⊢
    · simp only [h0, h1, if_false]
      refine ⟨by simp, by simp, by simp, ?_⟩
      rintro i fl (⟨rfl, rfl⟩ | ⟨rfl, rfl⟩ | ⟨rfl, rfl⟩) hfl <;> simp at hfl ⊢

/-- the neutrino fractions are the extracted `[0.78, 0.61, 0.61]` (pγ) and `[0.5, 0.5, 0.5]` (pp) -/
theorem C13_nunubar_values :
    nuFraction true 0 = 78 / 100 ∧ nuFraction true 1 = 61 / 100 ∧ nuFraction true 2 = 61 / 100 ∧
    nuFraction false 0 = 1 / 2 ∧ nuFraction false 1 = 1 / 2 ∧ nuFraction false 2 = 1 / 2 := by
  refine ⟨?_, ?_, ?_, ?_, ?_, ?_⟩ <;>
    simp [nuFraction, cst, decR, PyrexGen.Generation.nunubarCosmogenic, PyrexGen.Generation.nunubarAstro] <;> norm_num

/-! ## weights -/

/-- survival weight `= exp(−X/L)`, in `(0,1]` for a non-negative column and a positive length -/
theorem C13_survival_weight_def (X L : ℝ) (hX : 0 ≤ X) (hL : 0 < L) :
    survivalWeight X L = Real.exp (-(X / L)) ∧ 0 < survivalWeight X L ∧ survivalWeight X L ≤ 1 := by
  refine ⟨rfl, Real.exp_pos _, ?_⟩
  unfold survivalWeight; simp only [Rexp]
  rw [Real.exp_le_one_iff]
  have := div_nonneg hX hL.le
  linarith

/-- interaction weight `= (ℓ_ice/L_ice)·exp(−ℓ_travel/L_ice)` with `L_ice = L/0.92/100` -/
theorem C13_interaction_weight_def (inIce travel L : ℝ) :
    iceLength L = L / (92 / 100) / 100 ∧
    interactionWeight inIce travel L = inIce / (L / (92 / 100) / 100) * Real.exp (-travel / (L / (92 / 100) / 100)) := by
  have h : iceLength L = L / (92 / 100) / 100 := by
    simp [iceLength, cst, decR, PyrexGen.Generation.iceFactors]
  exact ⟨h, by unfold interactionWeight; rw [h]⟩

/-- the weights of a particle: survival from the slant depth of the chord *behind* the vertex (direction `−û`,
default step), interaction weight from the in-ice chord `|exit − entry|` and the distance travelled `|vertex − entry|` -/
theorem C13_weights_def (earth : EarthModel) (g : Volume) (v u entry exit : EV3) (L : ℝ)
    (h : g.exitPoints v u = some (entry, exit)) :
    weights earth g v u L = some (Real.exp (-(earth.slantDepth v ⟨-u.x, -u.y, -u.z⟩ 500 / L)),
      interactionWeight (distE exit entry) (distE v entry) L) := by
  have hs : cst PyrexGen.Generation.slantStep 0 = 500 := by
    simp [cst, decR, PyrexGen.Generation.slantStep]
  unfold weights; rw [h, hs]; rfl

/-! ## exit points: box (slab method) -/

def inBox (dx dy dz : ℝ) (p : EV3) : Prop :=
  -dx / 2 ≤ p.x ∧ p.x ≤ dx / 2 ∧ -dy / 2 ≤ p.y ∧ p.y ≤ dy / 2 ∧ -dz ≤ p.z ∧ p.z ≤ 0

def onBoxFace (dx dy dz : ℝ) (p : EV3) : Prop :=
  p.x = -dx / 2 ∨ p.x = dx / 2 ∨ p.y = -dy / 2 ∨ p.y = dy / 2 ∨ p.z = -dz ∨ p.z = 0

/-- point of the line of flight at parameter `t` -/
def lineAt (v d : EV3) (t : ℝ) : EV3 := ⟨v.x + d.x * t, v.y + d.y * t, v.z + d.z * t⟩

/-- on the boundary, on the line of flight, at a parameter of the given sign -/
def GoodPoint (dx dy dz : ℝ) (v d : EV3) (enter : Bool) (p : EV3) : Prop :=
  ∃ t : ℝ, (if enter then t ≤ 0 else 0 ≤ t) ∧ p = lineAt v d t ∧ inBox dx dy dz p ∧ onBoxFace dx dy dz p

def BoxInv (dx dy dz : ℝ) (v d : EV3) (st : Option EV3 × Option EV3) : Prop :=
  (∀ p, st.1 = some p → GoodPoint dx dy dz v d true p) ∧ (∀ p, st.2 = some p → GoodPoint dx dy dz v d false p)

private theorem boxStep_inv (dx dy dz : ℝ) (v d : EV3) (hv : inBox dx dy dz v)
    (st : Option EV3 × Option EV3) (hst : BoxInv dx dy dz v d st) (c : ℕ) (hc : c < 6) :
    BoxInv dx dy dz v d (boxStep dx dy dz v d st c) := by
  obtain ⟨hx1, hx2, hy1, hy2, hz1, hz2⟩ := hv
  unfold boxStep
  by_cases hnz : comp d (c / 2) < 0 ∨ 0 < comp d (c / 2)
  swap
  · rw [if_neg hnz]; exact hst
  rw [if_pos hnz]
  by_cases hval : boxValid dx dy dz (boxIntersection dx dy dz v d (c / 2) (c % 2)) (c / 2)
  swap
  · rw [if_neg hval]; exact hst
  rw [if_pos hval]
  -- the candidate is a point of the line, inside the box, on the face `coord = side`
  have hline : boxIntersection dx dy dz v d (c / 2) (c % 2)
      = lineAt v d ((boxSide dx dy dz (c / 2) (c % 2) - comp v (c / 2)) / comp d (c / 2)) := rfl
  have hne : comp d (c / 2) ≠ 0 := by rcases hnz with h | h <;> [exact ne_of_lt h; exact ne_of_gt h]
  have key : ∀ (enter : Bool),
      (if enter then (boxSide dx dy dz (c / 2) (c % 2) - comp v (c / 2)) / comp d (c / 2) ≤ 0
        else 0 ≤ (boxSide dx dy dz (c / 2) (c % 2) - comp v (c / 2)) / comp d (c / 2)) →
      GoodPoint dx dy dz v d enter (boxIntersection dx dy dz v d (c / 2) (c % 2)) := by
    intro enter hsign
    refine ⟨_, hsign, hline, ?_, ?_⟩
    · -- inside: the face coordinate equals the side, the others are valid
      unfold boxValid at hval
      interval_cases c <;> simp [boxIntersection, boxSide, comp, inBox] at hval hne ⊢ <;>
        (refine ⟨?_, ?_, ?_, ?_, ?_, ?_⟩ <;> first
          | (field_simp; linarith) | linarith [hval.1, hval.2] | (push Not at hval; linarith [hval.1.1, hval.1.2, hval.2.1, hval.2.2]))
    · interval_cases c <;> simp [boxIntersection, boxSide, comp, onBoxFace] at hne ⊢ <;> field_simp <;> simp
  by_cases hs : (if c % 2 = 1 then comp d (c / 2) else -(comp d (c / 2))) < 0
  · rw [if_pos hs]
    refine ⟨?_, hst.2⟩
    intro p hp
    simp only [Option.some.injEq] at hp
    rw [← hp]
    apply key true
    simp only [if_true]
    interval_cases c <;> simp [boxSide, comp] at hs hne ⊢ <;>
      first
        | (apply div_nonpos_of_nonpos_of_nonneg <;> linarith)
        | (apply div_nonpos_of_nonneg_of_nonpos <;> linarith)
  · rw [if_neg hs]
    refine ⟨hst.1, ?_⟩
    intro p hp
    simp only [Option.some.injEq] at hp
    rw [← hp]
    apply key false
    simp only [Bool.false_eq_true, if_false]
    interval_cases c <;> simp [boxSide, comp] at hs hne hnz ⊢ <;>
      first
        | (apply div_nonneg <;> linarith)
        | (apply div_nonneg_of_nonpos <;> linarith)

private theorem boxLoop_inv (dx dy dz : ℝ) (v d : EV3) (hv : inBox dx dy dz v) (cs : List ℕ) (hcs : ∀ c ∈ cs, c < 6)
    (st : Option EV3 × Option EV3) (hst : BoxInv dx dy dz v d st) (a b : EV3)
    (h : boxLoop dx dy dz v d cs st = some (a, b)) :
    GoodPoint dx dy dz v d true a ∧ GoodPoint dx dy dz v d false b := by
  induction cs generalizing st with
  | nil => simp [boxLoop] at h
  | cons c cs ih =>
    have hc : c < 6 := hcs c (List.mem_cons_self)
    have hcs' : ∀ c' ∈ cs, c' < 6 := fun c' h' => hcs c' (List.mem_cons_of_mem _ h')
    simp only [boxLoop] at h
    by_cases hnz : comp d (c / 2) < 0 ∨ 0 < comp d (c / 2)
    · rw [if_pos hnz] at h
      have hinv := boxStep_inv dx dy dz v d hv st hst c hc
      cases hb : bothSet (boxStep dx dy dz v d st c) with
      | some r =>
        simp only [hb, Option.some.injEq] at h
        subst h
        -- both components of the state are set to (a, b)
        have : (boxStep dx dy dz v d st c) = (some a, some b) := by
          generalize boxStep dx dy dz v d st c = s at hb
          obtain ⟨s1, s2⟩ := s
          cases s1 <;> cases s2 <;> simp [bothSet] at hb
          obtain ⟨rfl, rfl⟩ := hb; rfl
        rw [this] at hinv
        exact ⟨hinv.1 a rfl, hinv.2 b rfl⟩
      | none =>
        simp only [hb] at h
        exact ih hcs' _ hinv h
    · rw [if_neg hnz] at h
      exact ih hcs' st hst h

/-- Box exit points (slab method), for a vertex inside the box and any direction (axis-parallel included:
a zero component is skipped): whenever `get_exit_points` returns `(enter, exit)`, both lie **on the boundary**
(inside the closed box and on a face), both are **on the line of flight** `v + t·d`, and the vertex is
**between** them: `t_enter ≤ 0 ≤ t_exit`. -/
theorem C13_box_exit_on_boundary (dx dy dz : ℝ) (v d a b : EV3) (hv : inBox dx dy dz v)
    (h : boxExit dx dy dz v d = some (a, b)) :
    inBox dx dy dz a ∧ onBoxFace dx dy dz a ∧ inBox dx dy dz b ∧ onBoxFace dx dy dz b := by
  have := boxLoop_inv dx dy dz v d hv [0, 1, 2, 3, 4, 5] (by decide) (none, none)
    ⟨fun p hp => by simp at hp, fun p hp => by simp at hp⟩ a b h
  obtain ⟨⟨_, _, _, h1, h2⟩, ⟨_, _, _, h3, h4⟩⟩ := this
  exact ⟨h1, h2, h3, h4⟩

theorem C13_box_exit_collinear (dx dy dz : ℝ) (v d a b : EV3) (hv : inBox dx dy dz v)
    (h : boxExit dx dy dz v d = some (a, b)) :
    ∃ ta tb : ℝ, a = lineAt v d ta ∧ b = lineAt v d tb := by
  have := boxLoop_inv dx dy dz v d hv [0, 1, 2, 3, 4, 5] (by decide) (none, none)
    ⟨fun p hp => by simp at hp, fun p hp => by simp at hp⟩ a b h
  obtain ⟨⟨ta, _, ha, _, _⟩, ⟨tb, _, hb, _, _⟩⟩ := this
  exact ⟨ta, tb, ha, hb⟩

theorem C13_box_exit_brackets_vertex (dx dy dz : ℝ) (v d a b : EV3) (hv : inBox dx dy dz v)
    (h : boxExit dx dy dz v d = some (a, b)) :
    ∃ ta tb : ℝ, ta ≤ 0 ∧ 0 ≤ tb ∧ a = lineAt v d ta ∧ b = lineAt v d tb := by
  have := boxLoop_inv dx dy dz v d hv [0, 1, 2, 3, 4, 5] (by decide) (none, none)
    ⟨fun p hp => by simp at hp, fun p hp => by simp at hp⟩ a b h
  obtain ⟨⟨ta, hta, ha, _, _⟩, ⟨tb, htb, hb, _, _⟩⟩ := this
  exact ⟨ta, tb, by simpa using hta, by simpa using htb, ha, hb⟩

/-- Totality of the slab method: for a vertex in the (closed) box and a direction with at least one non-zero
component — axis-parallel directions included — `get_exit_points` always returns a pair (it never raises); with
the three theorems above the pair is on the boundary, on the line of flight and brackets the vertex. -/
theorem C13_box_exit_total (dx dy dz : ℝ) (v d : EV3) (hv : inBox dx dy dz v)
    (hd : d.x ≠ 0 ∨ d.y ≠ 0 ∨ d.z ≠ 0) :
    ∃ a b, boxExit dx dy dz v d = some (a, b) ∧
      inBox dx dy dz a ∧ onBoxFace dx dy dz a ∧ inBox dx dy dz b ∧ onBoxFace dx dy dz b ∧
      ∃ ta tb : ℝ, ta ≤ 0 ∧ 0 ≤ tb ∧ a = lineAt v d ta ∧ b = lineAt v d tb := by
  have hidx : InBoxIdx dx dy dz v := by
    obtain ⟨h1, h2, h3, h4, h5, h6⟩ := hv
    intro j hj
    interval_cases j <;> simp [comp, boxSide] <;> constructor <;> linarith
  have hdd : ∃ j, j < 3 ∧ comp d j ≠ 0 := by
    rcases hd with h | h | h
    · exact ⟨0, by norm_num, by simpa [comp] using h⟩
    · exact ⟨1, by norm_num, by simpa [comp] using h⟩
    · exact ⟨2, by norm_num, by simpa [comp] using h⟩
  obtain ⟨⟨a, b⟩, hr⟩ := boxExit_total dx dy dz v d hidx hdd
  obtain ⟨h1, h2, h3, h4⟩ := C13_box_exit_on_boundary dx dy dz v d a b hv hr
  exact ⟨a, b, hr, h1, h2, h3, h4, C13_box_exit_brackets_vertex dx dy dz v d a b hv hr⟩

/-! ## exit points: cylinder -/

/-- generic direction (`d_x ≠ 0`) with the line meeting the infinite cylinder (`disc ≥ 0`): both side
candidates satisfy `x² + y² = dr²` and lie on the line of flight (same slope in the horizontal plane, `z`
advanced proportionally) -/
theorem C13_cyl_side_roots (dr : ℝ) (v d : EV3) (hdx : d.x < 0 ∨ 0 < d.x)
    (hdisc : 0 ≤ -((v.y - (d.y / d.x) * v.x) * (v.y - (d.y / d.x) * v.x)) + (1 + (d.y / d.x) * (d.y / d.x)) * (dr * dr)) :
    let P := cylSidePoints dr v d
    P.1.x ^ 2 + P.1.y ^ 2 = dr ^ 2 ∧ P.2.x ^ 2 + P.2.y ^ 2 = dr ^ 2 ∧
    P.1.y - v.y = (d.y / d.x) * (P.1.x - v.x) ∧ P.2.y - v.y = (d.y / d.x) * (P.2.x - v.x) ∧
    P.1.z - v.z = (P.1.x - v.x) * d.z / d.x ∧ P.2.z - v.z = (P.2.x - v.x) * d.z / d.x := by
  intro P
  have hP : P = cylSidePoints dr v d := rfl
  unfold cylSidePoints at hP
  rw [if_pos hdx] at hP
  simp only [Rsqrt] at hP
  set m := d.y / d.x with hm
  set q := Real.sqrt (-((v.y - m * v.x) * (v.y - m * v.x)) + (1 + m * m) * (dr * dr)) with hq
  have hqq : q * q = -((v.y - m * v.x) * (v.y - m * v.x)) + (1 + m * m) * (dr * dr) := Real.mul_self_sqrt hdisc
  have ha : (1 + m * m) ≠ 0 := by nlinarith [mul_self_nonneg m]
  rw [hP]
  refine ⟨?_, ?_, ?_, ?_, ?_, ?_⟩
  · simp only; field_simp; nlinarith [hqq]
  · simp only; field_simp; nlinarith [hqq]
  · simp only; field_simp; ring
  · simp only; field_simp; ring
  · simp only; ring
  · simp only; ring

/-- a side candidate above the top (or below the bottom) is replaced by the point of the line on that cap:
the result has `z = 0` (resp. `−dz`) and lies on the line of flight (needs `d_z ≠ 0`, which holds whenever a side
point leaves the z-range) -/
theorem C13_cyl_cap_override (dz : ℝ) (v d pt : EV3) (hdz : d.z ≠ 0) (hz : 0 ≤ dz) :
    (0 < pt.z → capOverride dz v d pt = lineAt v d ((0 - v.z) / d.z) ∧ (capOverride dz v d pt).z = 0) ∧
    (pt.z < -dz → capOverride dz v d pt = lineAt v d ((-dz - v.z) / d.z) ∧ (capOverride dz v d pt).z = -dz) ∧
    (¬ 0 < pt.z → ¬ pt.z < -dz → capOverride dz v d pt = pt) := by
  refine ⟨?_, ?_, ?_⟩
  · intro h
    simp only [capOverride, if_pos h, lineAt, EV3.mk.injEq, and_true]
    refine ⟨by ring, by ring, by field_simp; ring⟩
  · intro h
    have h0 : ¬ 0 < pt.z := by linarith
    simp only [capOverride, if_neg h0, if_pos h, lineAt, EV3.mk.injEq, and_true]
    refine ⟨by ring, by ring, by field_simp; ring⟩
  · intro h0 h1
    simp only [capOverride, if_neg h0, if_neg h1]

/-- (Guard `d.x ≠ 0 ∨ d.y ≠ 0`: for the exactly vertical direction the source divides by `d_y = 0`; the real code
then works with IEEE infinities and returns the correct cap points — checked on the implementation —, whereas the
ℝ-reading has `x/0 = 0`.  The statement is therefore made only where the two readings agree; the vertical direction
is carried by the Float-twin correspondence run and the chord oracle.)
Cylinder, bracketing — what is proved: if `get_exit_points` returns `(enter, exit)` then along every non-zero
direction component the entry point is behind (or at) the vertex and the exit point ahead of (or at) it — the
`np.all(… < 0)` / `np.all(… > 0)` / `np.all(… == 0)` classification of the code.
(Full statement: for a vertex inside and a non-zero direction the method always returns, and the points are on the
boundary; on-the-surface/on-the-line is `C13_cyl_side_roots` + `C13_cyl_cap_override`; that the overridden point lies
within the cap disc, and totality, are not proved — grazing tangency makes `disc` round to a negative number.) -/
theorem C13_cyl_exit_brackets_vertex_partial (dr dz : ℝ) (v d a b : EV3)
    (_hguard : d.x ≠ 0 ∨ d.y ≠ 0)
    (h : cylExit dr dz v d = some (a, b)) :
    (allNeg a v d ∨ allZero a v d) ∧ (allPos b v d ∨ allZero b v d) := by
  unfold cylExit at h
  set p0 := capOverride dz v d (cylSidePoints dr v d).1
  set p1 := capOverride dz v d (cylSidePoints dr v d).2
  -- invariant of `classify`
  have inv : ∀ (st : Option EV3 × Option EV3) (pt : EV3),
      ((∀ p, st.1 = some p → allNeg p v d ∨ allZero p v d) ∧ (∀ p, st.2 = some p → allPos p v d ∨ allZero p v d)) →
      ((∀ p, (classify v d st pt).1 = some p → allNeg p v d ∨ allZero p v d) ∧
       (∀ p, (classify v d st pt).2 = some p → allPos p v d ∨ allZero p v d)) := by
    intro st pt hst
    unfold classify
    by_cases h1 : allNeg pt v d
    · rw [if_pos h1]
      exact ⟨fun p hp => by simp at hp; rw [← hp]; exact Or.inl h1, hst.2⟩
    · rw [if_neg h1]
      by_cases h2 : allPos pt v d
      · rw [if_pos h2]
        exact ⟨hst.1, fun p hp => by simp at hp; rw [← hp]; exact Or.inl h2⟩
      · rw [if_neg h2]
        by_cases h3 : allZero pt v d
        · rw [if_pos h3]
          obtain ⟨s1, s2⟩ := st
          constructor
          · intro p hp
            cases s1 with
            | none => simp at hp; rw [← hp]; exact Or.inr h3
            | some q => simp at hp; rw [← hp]; exact hst.1 q rfl
          · intro p hp
            cases s2 with
            | none => simp at hp; rw [← hp]; exact Or.inr h3
            | some q => simp at hp; rw [← hp]; exact hst.2 q rfl
        · rw [if_neg h3]; exact hst
  have h0 := inv (none, none) p0 ⟨fun p hp => by simp at hp, fun p hp => by simp at hp⟩
  have h1 := inv _ p1 h0
  generalize classify v d (classify v d (none, none) p0) p1 = s at h h1
  obtain ⟨s1, s2⟩ := s
  cases s1 <;> cases s2 <;> simp [bothSet] at h
  obtain ⟨rfl, rfl⟩ := h
  exact ⟨h1.1 _ rfl, h1.2 _ rfl⟩

private theorem line_comp (vj dj t : ℝ) (h : dj < 0 ∨ 0 < dj) : (vj + dj * t - vj) / dj = t := by
  have hne : dj ≠ 0 := by rcases h with h | h <;> [exact ne_of_lt h; exact ne_of_gt h]
  rw [add_sub_cancel_left, mul_div_cancel_left₀ _ hne]

private theorem lineAt_allNeg (v d : EV3) (t : ℝ) (ht : t < 0) : allNeg (lineAt v d t) v d := by
  unfold allNeg lineAt
  refine ⟨?_, ?_, ?_⟩ <;> intro h <;> simp only <;> rw [line_comp _ _ _ h] <;> exact ht

private theorem lineAt_allPos (v d : EV3) (t : ℝ) (ht : 0 < t) : allPos (lineAt v d t) v d := by
  unfold allPos lineAt
  refine ⟨?_, ?_, ?_⟩ <;> intro h <;> simp only <;> rw [line_comp _ _ _ h] <;> exact ht

private theorem side_offsets (dr : ℝ) (v d : EV3) (hnz : d.x < 0 ∨ 0 < d.x) (m q : ℝ) (hm : m = d.y / d.x)
    (hq : q = Real.sqrt (-((v.y - m * v.x) * (v.y - m * v.x)) + (1 + m * m) * (dr * dr))) :
    (cylSidePoints dr v d).1.x - v.x = (-q - (v.x + m * v.y)) / (1 + m * m) ∧
    (cylSidePoints dr v d).2.x - v.x = (q - (v.x + m * v.y)) / (1 + m * m) := by
  have ha : (1 + m * m) ≠ 0 := by nlinarith [mul_self_nonneg m]
  unfold cylSidePoints
  rw [if_pos hnz]
  simp only [Rsqrt, ← hm, ← hq]
  constructor <;> (field_simp; ring)

private theorem lineAt_not_allNeg (v d : EV3) (hdx : d.x ≠ 0) (t : ℝ) (ht : 0 < t) : ¬ allNeg (lineAt v d t) v d := by
  intro h
  have := h.1 (lt_or_gt_of_ne hdx)
  simp only [lineAt] at this
  rw [add_sub_cancel_left, mul_div_cancel_left₀ _ hdx] at this
  linarith

/-- the cap override keeps a point of the line on the line, on the same side of the vertex -/
private theorem cap_on_line (dz : ℝ) (v d : EV3) (hz : -dz < v.z ∧ v.z < 0) (t : ℝ) :
    ∃ t' : ℝ, capOverride dz v d (lineAt v d t) = lineAt v d t' ∧ (t < 0 → t' < 0) ∧ (0 < t → 0 < t') := by
  have hdz0 : 0 ≤ dz := by linarith [hz.1, hz.2]
  by_cases h1 : 0 < (lineAt v d t).z
  · have hprod : 0 < d.z * t := by simp only [lineAt] at h1; linarith [hz.2]
    have hdz : d.z ≠ 0 := by rintro h; rw [h, zero_mul] at hprod; exact lt_irrefl _ hprod
    refine ⟨(0 - v.z) / d.z, ((C13_cyl_cap_override dz v d (lineAt v d t) hdz hdz0).1 h1).1, ?_, ?_⟩
    · intro ht
      have : d.z < 0 := by by_contra hcon; push Not at hcon; nlinarith
      exact div_neg_of_pos_of_neg (by linarith [hz.2]) this
    · intro ht
      have : 0 < d.z := by by_contra hcon; push Not at hcon; nlinarith
      exact div_pos (by linarith [hz.2]) this
  · by_cases h2 : (lineAt v d t).z < -dz
    · have hprod : d.z * t < 0 := by simp only [lineAt] at h2; linarith [hz.1]
      have hdz : d.z ≠ 0 := by rintro h; rw [h, zero_mul] at hprod; exact lt_irrefl _ hprod
      refine ⟨(-dz - v.z) / d.z, ((C13_cyl_cap_override dz v d (lineAt v d t) hdz hdz0).2.1 h2).1, ?_, ?_⟩
      · intro ht
        have : 0 < d.z := by by_contra hcon; push Not at hcon; nlinarith
        exact div_neg_of_neg_of_pos (by linarith [hz.1]) this
      · intro ht
        have : d.z < 0 := by by_contra hcon; push Not at hcon; nlinarith
        exact div_pos_of_neg_of_neg (by linarith [hz.1]) this
    · refine ⟨t, ?_, fun h => h, fun h => h⟩
      simp only [capOverride, if_neg h1, if_neg h2]

/-- Totality of the cylinder exit for generic position: radius `dr > 0`, vertex **strictly inside** the cylinder
(`x²+y² < dr²`, `−dz < z < 0`), direction with `d_x ≠ 0` (the code's general branch).  Then `get_exit_points`
returns a pair, both points are on the line of flight, and the vertex lies strictly between them
(`t_enter < 0 < t_exit`).  (Directions with `d_x = 0` use the other branch of the code and vertices on the
boundary can make a parameter vanish; those cases are covered by the correspondence run, not by this theorem.) -/
theorem C13_cyl_exit_total_generic (dr dz : ℝ) (v d : EV3) (hdx : d.x ≠ 0)
    (hin : v.x ^ 2 + v.y ^ 2 < dr ^ 2) (hz : -dz < v.z ∧ v.z < 0) :
    ∃ a b, cylExit dr dz v d = some (a, b) ∧
      ∃ ta tb : ℝ, ta < 0 ∧ 0 < tb ∧ a = lineAt v d ta ∧ b = lineAt v d tb := by
  have hnz : d.x < 0 ∨ 0 < d.x := lt_or_gt_of_ne hdx
  set m := d.y / d.x with hm
  have hkey : (v.x + m * v.y) ^ 2 < -((v.y - m * v.x) * (v.y - m * v.x)) + (1 + m * m) * (dr * dr) := by nlinarith
  have hdisc : 0 ≤ -((v.y - m * v.x) * (v.y - m * v.x)) + (1 + m * m) * (dr * dr) := by nlinarith [sq_nonneg (v.x + m * v.y)]
  obtain ⟨_, _, hy0, hy1, hz0, hz1⟩ := C13_cyl_side_roots dr v d hnz hdisc
  set P := cylSidePoints dr v d with hP
  -- signs of the horizontal offsets of the two side candidates
  have ha : 0 < 1 + m * m := by nlinarith [mul_self_nonneg m]
  set q := Real.sqrt (-((v.y - m * v.x) * (v.y - m * v.x)) + (1 + m * m) * (dr * dr)) with hq
  have hqq : q * q = -((v.y - m * v.x) * (v.y - m * v.x)) + (1 + m * m) * (dr * dr) := Real.mul_self_sqrt hdisc
  have hq0 : 0 ≤ q := Real.sqrt_nonneg _
  have hqabs : |v.x + m * v.y| < q := by
    rw [abs_lt]
    constructor
    · by_contra hcon; push Not at hcon; nlinarith
    · by_contra hcon; push Not at hcon; nlinarith
  obtain ⟨hx0, hx1⟩ := side_offsets dr v d hnz m q hm hq
  have hs0 : P.1.x - v.x < 0 := by
    rw [hx0]; exact div_neg_of_neg_of_pos (by linarith [(abs_lt.mp hqabs).1]) ha
  have hs1 : 0 < P.2.x - v.x := by
    rw [hx1]; exact div_pos (by linarith [(abs_lt.mp hqabs).2]) ha
  -- both candidates are points of the line
  have hl0 : P.1 = lineAt v d ((P.1.x - v.x) / d.x) := by
    have e1 : P.1.x = v.x + d.x * ((P.1.x - v.x) / d.x) := by field_simp; ring
    have e2 : P.1.y = v.y + d.y * ((P.1.x - v.x) / d.x) := by
      have : d.y * ((P.1.x - v.x) / d.x) = m * (P.1.x - v.x) := by rw [hm]; field_simp
      linarith
    have e3 : P.1.z = v.z + d.z * ((P.1.x - v.x) / d.x) := by
      have : d.z * ((P.1.x - v.x) / d.x) = (P.1.x - v.x) * d.z / d.x := by field_simp
      linarith
    cases hPP : P.1 with
    | mk x y z => simp only [hPP, lineAt, EV3.mk.injEq] at e1 e2 e3 ⊢; exact ⟨e1, e2, e3⟩
  have hl1 : P.2 = lineAt v d ((P.2.x - v.x) / d.x) := by
    have e1 : P.2.x = v.x + d.x * ((P.2.x - v.x) / d.x) := by field_simp; ring
    have e2 : P.2.y = v.y + d.y * ((P.2.x - v.x) / d.x) := by
      have : d.y * ((P.2.x - v.x) / d.x) = m * (P.2.x - v.x) := by rw [hm]; field_simp
      linarith
    have e3 : P.2.z = v.z + d.z * ((P.2.x - v.x) / d.x) := by
      have : d.z * ((P.2.x - v.x) / d.x) = (P.2.x - v.x) * d.z / d.x := by field_simp
      linarith
    cases hPP : P.2 with
    | mk x y z => simp only [hPP, lineAt, EV3.mk.injEq] at e1 e2 e3 ⊢; exact ⟨e1, e2, e3⟩
  obtain ⟨t0, hc0, hn0, hp0⟩ := cap_on_line dz v d hz ((P.1.x - v.x) / d.x)
  obtain ⟨t1, hc1, hn1, hp1⟩ := cap_on_line dz v d hz ((P.2.x - v.x) / d.x)
  rw [← hl0] at hc0
  rw [← hl1] at hc1
  unfold cylExit
  rw [← hP, hc0, hc1]
  rcases hnz with hneg | hpos
  · -- d.x < 0: the first candidate is ahead of the vertex, the second behind it
    have ht0 : 0 < t0 := hp0 (div_pos_of_neg_of_neg hs0 hneg)
    have ht1 : t1 < 0 := hn1 (div_neg_of_pos_of_neg hs1 hneg)
    refine ⟨lineAt v d t1, lineAt v d t0, ?_, t1, t0, ht1, ht0, rfl, rfl⟩
    have c0 : classify v d (none, none) (lineAt v d t0) = (none, some (lineAt v d t0)) := by
      unfold classify
      rw [if_neg (lineAt_not_allNeg v d hdx t0 ht0), if_pos (lineAt_allPos v d t0 ht0)]
    rw [c0]
    have c1 : classify v d (none, some (lineAt v d t0)) (lineAt v d t1) = (some (lineAt v d t1), some (lineAt v d t0)) := by
      unfold classify
      rw [if_pos (lineAt_allNeg v d t1 ht1)]
    rw [c1]; rfl
  · have ht0 : t0 < 0 := hn0 (div_neg_of_neg_of_pos hs0 hpos)
    have ht1 : 0 < t1 := hp1 (div_pos hs1 hpos)
    refine ⟨lineAt v d t0, lineAt v d t1, ?_, t0, t1, ht0, ht1, rfl, rfl⟩
    have c0 : classify v d (none, none) (lineAt v d t0) = (some (lineAt v d t0), none) := by
      unfold classify
      rw [if_pos (lineAt_allNeg v d t0 ht0)]
    rw [c0]
    have c1 : classify v d (some (lineAt v d t0), none) (lineAt v d t1) = (some (lineAt v d t0), some (lineAt v d t1)) := by
      unfold classify
      rw [if_neg (lineAt_not_allNeg v d hdx t1 ht1), if_pos (lineAt_allPos v d t1 ht1)]
    rw [c1]; rfl

private theorem lineAt_not_allNeg_y (v d : EV3) (hdy : d.y ≠ 0) (t : ℝ) (ht : 0 < t) : ¬ allNeg (lineAt v d t) v d := by
  intro h
  have := h.2.1 (lt_or_gt_of_ne hdy)
  simp only [lineAt] at this
  rw [add_sub_cancel_left, mul_div_cancel_left₀ _ hdy] at this
  linarith

/-- The other branch of the cylinder code, `d_x = 0` (flight in a plane `x = const`) with `d_y ≠ 0`: for a vertex
strictly inside the cylinder a pair is always returned, both points on the line of flight, the vertex strictly
between them.  (The exactly vertical direction `d_x = d_y = 0` divides by `d_y = 0` in the source: there the IEEE
infinities of the code and Lean's `x/0 = 0` part ways, so that case is left to the Float-twin correspondence run;
vertices on the boundary: caps are exercised by the harness, the side surface is known finding K18.) -/
theorem C13_cyl_exit_total_dx_zero (dr dz : ℝ) (v d : EV3) (hdx : d.x = 0) (hdy : d.y ≠ 0)
    (hin : v.x ^ 2 + v.y ^ 2 < dr ^ 2) (hz : -dz < v.z ∧ v.z < 0) :
    ∃ a b, cylExit dr dz v d = some (a, b) ∧
      ∃ ta tb : ℝ, ta < 0 ∧ 0 < tb ∧ a = lineAt v d ta ∧ b = lineAt v d tb := by
  have hnz : ¬ (d.x < 0 ∨ 0 < d.x) := by rw [hdx]; simp
  have hpos : 0 < dr * dr - v.x * v.x := by nlinarith [sq_nonneg v.y]
  set q := Real.sqrt (dr * dr - v.x * v.x) with hq
  have hqq : q * q = dr * dr - v.x * v.x := Real.mul_self_sqrt hpos.le
  have hq0 : 0 ≤ q := Real.sqrt_nonneg _
  have hy : -q < v.y ∧ v.y < q := by
    constructor
    · by_contra hcon; push Not at hcon; nlinarith
    · by_contra hcon; push Not at hcon; nlinarith
  have hP : cylSidePoints dr v d
      = (⟨v.x, -q, v.z + (-q - v.y) * d.z / d.y⟩, ⟨v.x, q, v.z + (q - v.y) * d.z / d.y⟩) := by
    unfold cylSidePoints; rw [if_neg hnz]
  have hl0 : (⟨v.x, -q, v.z + (-q - v.y) * d.z / d.y⟩ : EV3) = lineAt v d ((-q - v.y) / d.y) := by
    simp only [lineAt, EV3.mk.injEq, hdx, zero_mul, add_zero, true_and]
    constructor <;> field_simp <;> ring
  have hl1 : (⟨v.x, q, v.z + (q - v.y) * d.z / d.y⟩ : EV3) = lineAt v d ((q - v.y) / d.y) := by
    simp only [lineAt, EV3.mk.injEq, hdx, zero_mul, add_zero, true_and]
    constructor <;> field_simp <;> ring
  obtain ⟨t0, hc0, hn0, hp0⟩ := cap_on_line dz v d hz ((-q - v.y) / d.y)
  obtain ⟨t1, hc1, hn1, hp1⟩ := cap_on_line dz v d hz ((q - v.y) / d.y)
  rw [← hl0] at hc0
  rw [← hl1] at hc1
  unfold cylExit
  rw [hP]
  simp only
  rw [hc0, hc1]
  have hs0 : -q - v.y < 0 := by linarith [hy.1]
  have hs1 : 0 < q - v.y := by linarith [hy.2]
  rcases lt_or_gt_of_ne hdy with hneg | hposy
  · have ht0 : 0 < t0 := hp0 (div_pos_of_neg_of_neg hs0 hneg)
    have ht1 : t1 < 0 := hn1 (div_neg_of_pos_of_neg hs1 hneg)
    refine ⟨lineAt v d t1, lineAt v d t0, ?_, t1, t0, ht1, ht0, rfl, rfl⟩
    have c0 : classify v d (none, none) (lineAt v d t0) = (none, some (lineAt v d t0)) := by
      unfold classify
      rw [if_neg (lineAt_not_allNeg_y v d hdy t0 ht0), if_pos (lineAt_allPos v d t0 ht0)]
    rw [c0]
    have c1 : classify v d (none, some (lineAt v d t0)) (lineAt v d t1) = (some (lineAt v d t1), some (lineAt v d t0)) := by
      unfold classify
      rw [if_pos (lineAt_allNeg v d t1 ht1)]
    rw [c1]; rfl
  · have ht0 : t0 < 0 := hn0 (div_neg_of_neg_of_pos hs0 hposy)
    have ht1 : 0 < t1 := hp1 (div_pos hs1 hposy)
    refine ⟨lineAt v d t0, lineAt v d t1, ?_, t0, t1, ht0, ht1, rfl, rfl⟩
    have c0 : classify v d (none, none) (lineAt v d t0) = (some (lineAt v d t0), none) := by
      unfold classify
      rw [if_pos (lineAt_allNeg v d t0 ht0)]
    rw [c0]
    have c1 : classify v d (some (lineAt v d t0), none) (lineAt v d t1) = (some (lineAt v d t0), some (lineAt v d t1)) := by
      unfold classify
      rw [if_neg (lineAt_not_allNeg_y v d hdy t1 ht1), if_pos (lineAt_allPos v d t1 ht1)]
    rw [c1]; rfl

/-! ### error branch: the zero direction is rejected -/

/-- `RectangularGenerator.get_exit_points` raises (`ValueError`) for the zero direction: every face is skipped -/
theorem C13_box_exit_zero_direction (dx dy dz : ℝ) (v : EV3) : boxExit dx dy dz v ⟨0, 0, 0⟩ = none := by
  simp [boxExit, boxLoop, comp]

/-- `CylindricalGenerator.get_exit_points` raises for the zero direction: `np.all` over no component is true, so both
candidates are taken as entry points and no exit point is ever set -/
theorem C13_cyl_exit_zero_direction (dr dz : ℝ) (v : EV3) : cylExit dr dz v ⟨0, 0, 0⟩ = none := by
  have hneg : ∀ pt : EV3, allNeg pt v ⟨0, 0, 0⟩ := by
    intro pt; unfold allNeg; simp
  unfold cylExit classify
  simp only [hneg, if_true]
  rfl

/-! ## counting -/

/-- `create_event`: the number of passes reported is at least one; without shadowing it is exactly one; with
shadowing the accepted particle carries survival weight 1; and the recursion adds exactly one per rejected pass
(`C13_count_step`).  `count` is incremented at the top of every pass, so after the call
`count = count₀ + passes` (`countAfter`). -/
theorem C13_count_eq_throws (c : GenConfig) (fuel : ℕ) (t : Tape) (n : ℕ) (p : Thrown) (t' : Tape)
    (h : createEvent c fuel t = some (n, p, t')) :
    1 ≤ n ∧ n ≤ fuel ∧ (c.shadow = false → n = 1) ∧ (c.shadow = true → p.survival = 1) ∧
    countAfter 0 [n] = n := by
  have hmain : 1 ≤ n ∧ n ≤ fuel ∧ (c.shadow = false → n = 1) ∧ (c.shadow = true → p.survival = 1) := by
    induction fuel generalizing t n p t' with
    | zero => simp [createEvent] at h
    | succ fuel ih =>
      simp only [createEvent] at h
      cases h1 : throwOnce c t with
      | none => simp [h1] at h
      | some r =>
        obtain ⟨p0, t1⟩ := r
        simp only [h1, Option.bind_eq_bind, Option.bind_some] at h
        by_cases hs : c.shadow = false
        · rw [if_pos hs] at h
          simp only [Option.some.injEq, Prod.mk.injEq] at h
          obtain ⟨rfl, _, _⟩ := h
          exact ⟨le_refl _, by omega, fun _ => rfl, fun h' => by rw [hs] at h'; cases h'⟩
        · rw [if_neg hs] at h
          cases h2 : t1.nextU with
          | none => simp [h2] at h
          | some r2 =>
            obtain ⟨u, t2⟩ := r2
            simp only [h2, Option.bind_some] at h
            by_cases hu : u < p0.survival
            · rw [if_pos hu] at h
              simp only [Option.some.injEq, Prod.mk.injEq] at h
              obtain ⟨rfl, rfl, _⟩ := h
              exact ⟨le_refl _, by omega, fun h' => absurd h' hs, fun _ => rfl⟩
            · rw [if_neg hu] at h
              cases h3 : createEvent c fuel t2 with
              | none => simp [h3] at h
              | some r3 =>
                obtain ⟨m, q, t3⟩ := r3
                simp only [h3, Option.bind_some, Option.some.injEq, Prod.mk.injEq] at h
                obtain ⟨rfl, rfl, _⟩ := h
                have := ih t2 m q t3 h3
                exact ⟨by omega, by omega, fun h' => absurd h' hs, this.2.2.2⟩
  exact ⟨hmain.1, hmain.2.1, hmain.2.2.1, hmain.2.2.2, by simp [countAfter]⟩

/-- one rejected pass = one more throw: if the pass is shadowed (`u ≥ survival`), the result is that of the
recursive call with the pass count incremented -/
theorem C13_count_step (c : GenConfig) (fuel : ℕ) (t t1 t2 : Tape) (p0 : Thrown) (u : ℝ)
    (hs : c.shadow = true) (h1 : throwOnce c t = some (p0, t1)) (h2 : t1.nextU = some (u, t2))
    (hu : ¬ u < p0.survival) :
    createEvent c (fuel + 1) t = (createEvent c fuel t2).map (fun r => (r.1 + 1, r.2.1, r.2.2)) := by
  have hs' : ¬ c.shadow = false := by rw [hs]; simp
  simp only [createEvent, h1, Option.bind_eq_bind, Option.bind_some, if_neg hs', h2, if_neg hu]
  cases createEvent c fuel t2 with
  | none => rfl
  | some r => obtain ⟨m, q, t3⟩ := r; rfl

/-- shadowing accepts a pass exactly when the next draw is below its survival weight -/
theorem C13_shadow_accept (c : GenConfig) (fuel : ℕ) (t t1 t2 : Tape) (p0 : Thrown) (u : ℝ)
    (hs : c.shadow = true) (h1 : throwOnce c t = some (p0, t1)) (h2 : t1.nextU = some (u, t2))
    (hu : u < p0.survival) :
    createEvent c (fuel + 1) t = some (1, { p0 with survival := 1 }, t2) := by
  have hs' : ¬ c.shadow = false := by rw [hs]; simp
  simp only [createEvent, h1, Option.bind_eq_bind, Option.bind_some, if_neg hs', h2, if_pos hu]

/-- shadowing as a probability: the decision draws `u ∈ [0,1)` that accept a throw of survival weight
`w = exp(−X/L)` form a set of Lebesgue measure `w`, those that reject it a set of measure `1 − w` — events are
rejected with probability `1 − survival weight` -/
theorem C13_shadow_accept_prob (X L : ℝ) (hX : 0 ≤ X) (hL : 0 < L) :
    MeasureTheory.volume {u : ℝ | 0 ≤ u ∧ u < 1 ∧ u < survivalWeight X L} = ENNReal.ofReal (survivalWeight X L) ∧
    MeasureTheory.volume {u : ℝ | 0 ≤ u ∧ u < 1 ∧ ¬ u < survivalWeight X L} = ENNReal.ofReal (1 - survivalWeight X L) := by
  obtain ⟨_, hpos, hle⟩ := C13_survival_weight_def X L hX hL
  constructor
  · have : {u : ℝ | 0 ≤ u ∧ u < 1 ∧ u < survivalWeight X L} = Set.Ico 0 (survivalWeight X L) := by
      ext u; simp only [Set.mem_setOf_eq, Set.mem_Ico]
      constructor
      · rintro ⟨a, _, c⟩; exact ⟨a, c⟩
      · rintro ⟨a, c⟩; exact ⟨a, by linarith, c⟩
    rw [this, Real.volume_Ico]; simp
  · have : {u : ℝ | 0 ≤ u ∧ u < 1 ∧ ¬ u < survivalWeight X L} = Set.Ico (survivalWeight X L) 1 := by
      ext u; simp only [Set.mem_setOf_eq, Set.mem_Ico, not_lt]
      constructor
      · rintro ⟨_, b, c⟩; exact ⟨c, b⟩
      · rintro ⟨c, b⟩; exact ⟨by linarith, b, c⟩
    rw [this, Real.volume_Ico]

/-! ## list generator -/
open PyrexD.ListGen in
/-- looping list: the `i`-th call (from 0) returns `events[i mod n]` and `count` grows by one per call -/
theorem C13_list_cycle (n : ℕ) (hn : 0 < n) (k : ℕ) (s : PyrexD.ListGen.St) (hs : s.n = n) (hl : s.loop = true) :
    (PyrexD.ListGen.run s k).2 = (List.range k).map (fun i => (s.index + i) % n) ∧
    (PyrexD.ListGen.run s k).1.index = s.index + k ∧
    PyrexD.ListGen.count (PyrexD.ListGen.run s k).1 = PyrexD.ListGen.count s + k := by
  induction k generalizing s with
  | zero => simp [PyrexD.ListGen.run]
  | succ k ih =>
    have hc : PyrexD.ListGen.create s = ({ s with index := s.index + 1 }, some (s.index % s.n)) := by
      unfold PyrexD.ListGen.create
      have h1 : ¬ (s.loop = false ∧ s.index ≥ s.n) := by rw [hl]; simp
      have h2 : ¬ s.n = 0 := by omega
      rw [if_neg h1, if_neg h2]
    have := ih { s with index := s.index + 1 } hs hl
    simp only [PyrexD.ListGen.run, hc]
    refine ⟨?_, ?_, ?_⟩
    · rw [this.1, List.range_succ_eq_map, List.map_cons, List.map_map, hs]
      simp only [Nat.add_zero, List.cons.injEq, true_and]
      apply List.map_congr_left
      intro i _
      simp only [Function.comp]
      congr 1; omega
    · rw [this.2.1]; simp only; omega
    · rw [this.2.2]; simp only [PyrexD.ListGen.count]; push_cast; omega

/-- non-looping list: from a fresh generator the first `n` calls return `events[0..n-1]` in order, every later call
raises `StopIteration` and leaves `count` at `n`; `count = c` right after `count.setter(c)` -/
theorem C13_list_stop (n k : ℕ) :
    (PyrexD.ListGen.run (PyrexD.ListGen.init n false) k).2 = List.range (min k n) ∧
    (∀ s : PyrexD.ListGen.St, s.loop = false → s.n ≤ s.index → PyrexD.ListGen.create s = (s, none)) ∧
    (∀ (s : PyrexD.ListGen.St) (c : ℤ), PyrexD.ListGen.count (PyrexD.ListGen.setCount s c) = c) := by
  refine ⟨?_, ?_, ?_⟩
  · have key : ∀ (k : ℕ) (s : PyrexD.ListGen.St), s.loop = false → s.n = n → s.index ≤ n →
        (PyrexD.ListGen.run s k).2 = (List.range (min k (n - s.index))).map (· + s.index) := by
      intro k
      induction k with
      | zero => intro s _ _ _; simp [PyrexD.ListGen.run]
      | succ k ih =>
        intro s hl hsn hi
        by_cases hend : s.index ≥ n
        · have hc : PyrexD.ListGen.create s = (s, none) := by
            unfold PyrexD.ListGen.create; rw [if_pos ⟨hl, by omega⟩]
          have : n - s.index = 0 := by omega
          simp [PyrexD.ListGen.run, hc, this]
        · have h1 : ¬ (s.loop = false ∧ s.index ≥ s.n) := by rw [hsn]; intro h; exact hend h.2
          have h2 : ¬ s.n = 0 := by omega
          have hc : PyrexD.ListGen.create s = ({ s with index := s.index + 1 }, some (s.index % s.n)) := by
            unfold PyrexD.ListGen.create; rw [if_neg h1, if_neg h2]
          have := ih { s with index := s.index + 1 } hl hsn (by simp only; omega)
          simp only [PyrexD.ListGen.run, hc, this]
          have hm : s.index % s.n = s.index := Nat.mod_eq_of_lt (by omega)
          have hmin : min (k + 1) (n - s.index) = min k (n - (s.index + 1)) + 1 := by omega
          rw [hm, hmin, List.range_succ_eq_map, List.map_cons, List.map_map]
          simp only [Nat.zero_add, List.cons.injEq, true_and]
          apply List.map_congr_left
          intro i _
          simp only [Function.comp]; omega
    have := key k (PyrexD.ListGen.init n false) rfl rfl (by simp [PyrexD.ListGen.init])
    rw [this]; simp [PyrexD.ListGen.init]
  · intro s hl hi
    unfold PyrexD.ListGen.create; rw [if_pos ⟨hl, hi⟩]
  · intro s c; simp [PyrexD.ListGen.count, PyrexD.ListGen.setCount]

theorem C13_list_count (s : PyrexD.ListGen.St) (i : ℕ) (s' : PyrexD.ListGen.St)
    (h : PyrexD.ListGen.create s = (s', some i)) :
    PyrexD.ListGen.count s' = PyrexD.ListGen.count s + 1 ∧ i = s.index % s.n ∧ i < s.n := by
  unfold PyrexD.ListGen.create at h
  split_ifs at h with h1 h2
  · simp at h
  · simp at h
  · simp only [Prod.mk.injEq, Option.some.injEq] at h
    obtain ⟨rfl, rfl⟩ := h
    exact ⟨by simp [PyrexD.ListGen.count]; omega, rfl, Nat.mod_lt _ (by omega)⟩

/-- State kept across calls: assigning `count` changes only the reported number.  The event returned by the next
`create_event`, whether it stops, and the position afterwards are the same as without the assignment; the reported
count after the throw is the assigned value plus one. -/
theorem C13_list_setcount_no_effect (s : PyrexD.ListGen.St) (c : ℤ) :
    (PyrexD.ListGen.create (PyrexD.ListGen.setCount s c)).2 = (PyrexD.ListGen.create s).2 ∧
    (PyrexD.ListGen.create (PyrexD.ListGen.setCount s c)).1.index = (PyrexD.ListGen.create s).1.index ∧
    (∀ i, (PyrexD.ListGen.create s).2 = some i →
      PyrexD.ListGen.count (PyrexD.ListGen.create (PyrexD.ListGen.setCount s c)).1 = c + 1) := by
  unfold PyrexD.ListGen.create PyrexD.ListGen.setCount
  simp only
  split_ifs <;> simp [PyrexD.ListGen.count] <;> omega

/-! ## non-vacuity -/
/-- the hypotheses of the two cylinder totality theorems and of the box totality theorem are satisfiable -/
example : ((1:ℝ) ≠ 0) ∧ (3:ℝ) ^ 2 + 4 ^ 2 < 10 ^ 2 ∧ (-(50:ℝ) < -20 ∧ (-20:ℝ) < 0) := by norm_num
example : inBox 10 20 30 ⟨-5, 2, 0⟩ ∧ ((0:ℝ) ≠ 0 ∨ (1:ℝ) ≠ 0 ∨ (0:ℝ) ≠ 0) := by
  unfold inBox; norm_num
example : (PyrexD.ListGen.create (PyrexD.ListGen.setCount (PyrexD.ListGen.init 3 true) 40)).2 = some 0 := by decide
example : inBox 10 20 30 ⟨1, 2, -3⟩ := by unfold inBox; norm_num
example : (PyrexD.ListGen.run (PyrexD.ListGen.init 3 true) 7).2 = [0, 1, 2, 0, 1, 2, 0] := by decide
example : (PyrexD.ListGen.run (PyrexD.ListGen.init 3 false) 7).2 = [0, 1, 2] := by decide
example : (0:ℝ) ≤ 0.25 ∧ (0.25:ℝ) ≤ 1 := by norm_num
