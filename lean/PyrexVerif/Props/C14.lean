import PyrexVerif.Proofs.InteractionLemmas
import PyrexVerif.Proofs.EventTreeLemmas
import Mathlib.MeasureTheory.Measure.Lebesgue.Basic
/-!
# C14 — interactions conserve energy, cross sections are consistent, event trees are well formed

Numeric theorems are about the ℝ-reading `PyrexR` of `twin/Interaction.body`, whose coefficient tables
(`PyrexGen.Interaction`) are regenerated from `pyrex/particle.py` on every run; tree theorems are about
`PyrexD.Tree` (`D/EventTree.lean`).  The Float reading / the tree model are what `Drivers/C14.lean` runs.
-/
open PyrexR

/-- evaluate literals of the generated tables -/
macro "cst_simp" : tactic => `(tactic| (
  simp [cst, decR, avogadro, ctwRow, ctwARow, gqrsRow, gqrsTotalRow, ctwTotalRow,
    PyrexGen.Interaction.ctwD, PyrexGen.Interaction.ctwLowProb, PyrexGen.Interaction.ctwALow,
    PyrexGen.Interaction.ctwACcNu, PyrexGen.Interaction.ctwACcNubar, PyrexGen.Interaction.ctwANc,
    PyrexGen.Interaction.ctwC2, PyrexGen.Interaction.ctwYLow, PyrexGen.Interaction.ctwYHigh,
    PyrexGen.Interaction.ctwNuCc, PyrexGen.Interaction.ctwNuNc, PyrexGen.Interaction.ctwNubarCc,
    PyrexGen.Interaction.ctwNubarNc, PyrexGen.Interaction.gqrsCcProb, PyrexGen.Interaction.gqrsYExp,
    PyrexGen.Interaction.gqrsNuCc, PyrexGen.Interaction.gqrsNuNc, PyrexGen.Interaction.gqrsNubarCc,
    PyrexGen.Interaction.gqrsNubarNc, PyrexGen.Interaction.gqrsTotalNu, PyrexGen.Interaction.gqrsTotalNubar,
    PyrexGen.Interaction.avogadro] <;> norm_num))

/-! ## inelasticity -/

/-- GQRS: every draw `u ∈ [0,1)` gives `y ∈ (0,1]` -/
theorem C14_gqrs_y_range (u : ℝ) (h0 : 0 ≤ u) (h1 : u < 1) :
    0 < gqrsInelasticity u ∧ gqrsInelasticity u ≤ 1 := by
  unfold gqrsInelasticity
  simp only [Rpow, Rlog, Rexp]
  have he : 1 < Real.exp 1 := by
    have := Real.add_one_lt_exp (x := 1) (by norm_num); linarith
  have hr1 : 0 < 1 / Real.exp 1 := by positivity
  have hr1' : 1 / Real.exp 1 < 1 := by rw [div_lt_one (by positivity)]; exact he
  set v := 1 / Real.exp 1 + u * (1 - 1 / Real.exp 1) with hv
  have hv0 : 1 / Real.exp 1 ≤ v := by rw [hv]; nlinarith
  have hv1 : v < 1 := by rw [hv]; nlinarith
  have hvpos : 0 < v := lt_of_lt_of_le hr1 hv0
  have hlog1 : Real.log v < 0 := Real.log_neg hvpos hv1
  have hlog0 : -1 ≤ Real.log v := by
    have := Real.log_le_log hr1 hv0
    rw [one_div, Real.log_inv, Real.log_exp] at this; exact this
  have hexp : 0 ≤ cst PyrexGen.Interaction.gqrsYExp 0 := by
    cst_simp
  exact ⟨Real.rpow_pos_of_pos (by linarith) _, Real.rpow_le_one (by linarith) (by linarith) hexp⟩

private theorem ctwC1_neg (a : List PyrexGen.Dec) (eps : ℝ) (h0 : cst a 0 ≤ 0) (h1 : 0 < cst a 1) :
    ctwC1 a eps < 0 := by
  unfold ctwC1; simp only [Rexp]
  have := Real.exp_pos (-(eps - cst a 2) / cst a 3)
  nlinarith

/-- CTW: for `ε = log₁₀E ∈ [3,12]` and draws in `[0,1]` the high-y branch (Equation 15) gives
`y ∈ [10⁻³, 1]`, the low-y branch (Equation 14) `y ∈ [0, 10⁻³]`; so `y ∈ [0,1]` always. -/
theorem C14_ctw_y_range (anti : Bool) (k : Kind) (E u1 r : ℝ) (heps : 3 ≤ log10R E ∧ log10R E ≤ 12)
    (hr0 : 0 ≤ r) (hr1 : r ≤ 1) :
    (u1 < ctwLowProb (log10R E) → 0 ≤ ctwInelasticity anti k E u1 r ∧ ctwInelasticity anti k E u1 r ≤ 1 / 1000) ∧
    (¬ u1 < ctwLowProb (log10R E) → 1 / 1000 ≤ ctwInelasticity anti k E u1 r ∧ ctwInelasticity anti k E u1 r ≤ 1) ∧
    (0 ≤ ctwInelasticity anti k E u1 r ∧ ctwInelasticity anti k E u1 r ≤ 1) := by
  have hlow : u1 < ctwLowProb (log10R E) →
      0 ≤ ctwInelasticity anti k E u1 r ∧ ctwInelasticity anti k E u1 r ≤ 1 / 1000 := by
    intro h
    unfold ctwInelasticity; rw [if_pos h]
    have hc1 := ctwC1_neg PyrexGen.Interaction.ctwALow (log10R E)
      (by cst_simp) (by cst_simp)
    have hc2 : 1 < ctwC2 (log10R E) := by
      unfold ctwC2; cst_simp; nlinarith [heps.2]
    have hy0 : cst PyrexGen.Interaction.ctwYLow 0 = 0 := by cst_simp
    have hy1 : cst PyrexGen.Interaction.ctwYLow 1 = 1 / 1000 := by
      cst_simp
    rw [hy0, hy1]
    exact yLow_range _ _ 0 (1 / 1000) r hc1 (by norm_num) hr0 hr1 hc2
  have hhigh : ¬ u1 < ctwLowProb (log10R E) →
      1 / 1000 ≤ ctwInelasticity anti k E u1 r ∧ ctwInelasticity anti k E u1 r ≤ 1 := by
    intro h
    unfold ctwInelasticity; rw [if_neg h]
    have hc1 : ctwC1 (ctwARow anti k) (log10R E) < 0 := by
      apply ctwC1_neg
      · cases k <;> cases anti <;>
          cst_simp
      · cases k <;> cases anti <;>
          cst_simp
    have hy0 : cst PyrexGen.Interaction.ctwYHigh 0 = 1 / 1000 := by
      cst_simp
    have hy1 : cst PyrexGen.Interaction.ctwYHigh 1 = 1 := by cst_simp
    rw [hy0, hy1]
    exact yHigh_range _ (1 / 1000) 1 r (by linarith) (by norm_num) hr0 hr1
  refine ⟨hlow, hhigh, ?_⟩
  by_cases h : u1 < ctwLowProb (log10R E)
  · have := hlow h; constructor <;> linarith [this.1, this.2]
  · have := hhigh h; constructor <;> linarith [this.1, this.2]

/-- energies `10³ … 10¹²` GeV have `ε ∈ [3,12]` -/
theorem C14_energy_range (E : ℝ) (h1 : (10:ℝ) ^ (3:ℕ) ≤ E) (h2 : E ≤ (10:ℝ) ^ (12:ℕ)) :
    3 ≤ log10R E ∧ log10R E ≤ 12 := log10R_bounds E h1 h2

/-! ## shower fractions -/

private theorem secStep_nonneg (T : SecTables) (lep : ℝ) (nb ne nt : ℕ) (st : ℝ × ℝ) (uI uY : ℝ)
    (h : 0 ≤ st.1 ∧ 0 ≤ st.2) :
    0 ≤ (secStep T lep nb ne nt st uI uY).1 ∧ 0 ≤ (secStep T lep nb ne nt st uI uY).2 := by
  have hm : 0 ≤ maxR st.1 st.2 := by unfold maxR; split_ifs <;> [exact h.2; exact h.1]
  unfold secStep
  split_ifs <;> constructor <;> (try dsimp only) <;> linarith [h.1, h.2]

private theorem secLoop_nonneg (T : SecTables) (lep : ℝ) (nb ne nt : ℕ) (n : ℕ) (st : ℝ × ℝ) (t : Tape)
    (h : 0 ≤ st.1 ∧ 0 ≤ st.2) (res : (ℝ × ℝ) × Tape) (hres : secLoop T lep nb ne nt n st t = some res) :
    0 ≤ res.1.1 ∧ 0 ≤ res.1.2 := by
  induction n generalizing st t with
  | zero => simp [secLoop] at hres; rw [← hres]; exact h
  | succ n ih =>
    simp only [secLoop] at hres
    cases h1 : t.nextU with
    | none => simp [h1] at hres
    | some p1 =>
      obtain ⟨uI, t1⟩ := p1
      cases h2 : t1.nextU with
      | none => simp [h1, h2] at hres
      | some p2 =>
        obtain ⟨uY, t2⟩ := p2
        simp [h1, h2] at hres
        exact ih _ t2 (secStep_nonneg T lep nb ne nt st uI uY h) hres

private theorem tauDecayStep_nonneg (T : SecTables) (lep : ℝ) (st : ℝ × ℝ) (uI uY : ℝ) (h : 0 ≤ st.1 ∧ 0 ≤ st.2) :
    0 ≤ (tauDecayStep T lep st uI uY).1 ∧ 0 ≤ (tauDecayStep T lep st uI uY).2 := by
  have hm : 0 ≤ maxR st.1 st.2 := by unfold maxR; split_ifs <;> [exact h.2; exact h.1]
  unfold tauDecayStep
  split_ifs <;> constructor <;> (try dsimp only) <;> linarith [h.1, h.2]

private theorem chooseSecondary_nonneg (f : Flavor) (T : SecTables) (lep : ℝ) (t : Tape) (res : (ℝ × ℝ) × Tape)
    (hres : chooseSecondary f T lep t = some res) : 0 ≤ res.1.1 ∧ 0 ≤ res.1.2 := by
  cases f with
  | e => simp [chooseSecondary] at hres; rw [← hres]; simp
  | mu =>
    simp only [chooseSecondary] at hres
    cases h1 : t.nextK with
    | none => simp [h1] at hres
    | some p1 =>
      obtain ⟨nb, t1⟩ := p1
      cases h2 : t1.nextK with
      | none => simp [h1, h2] at hres
      | some p2 =>
        obtain ⟨ne, t2⟩ := p2
        cases h3 : t2.nextK with
        | none => simp [h1, h2, h3] at hres
        | some p3 =>
          obtain ⟨np, t3⟩ := p3
          simp [h1, h2, h3] at hres
          exact secLoop_nonneg T lep nb ne _ _ (0, 0) t3 (by simp) res hres
  | tau =>
    simp only [chooseSecondary] at hres
    cases h1 : t.nextK with
    | none => simp [h1] at hres
    | some p1 =>
      obtain ⟨nb, t1⟩ := p1
      cases h2 : t1.nextK with
      | none => simp [h1, h2] at hres
      | some p2 =>
        obtain ⟨ne, t2⟩ := p2
        cases h3 : t2.nextK with
        | none => simp [h1, h2, h3] at hres
        | some p3 =>
          obtain ⟨np, t3⟩ := p3
          simp [h1, h2, h3] at hres
          cases h4 : secLoop T lep nb ne (nb + ne + np) (nb + ne + np) (0, 0) t3 with
          | none => simp [h4] at hres
          | some p4 =>
            obtain ⟨st, t4⟩ := p4
            have hst := secLoop_nonneg T lep nb ne _ _ (0, 0) t3 (by simp) _ h4
            cases h5 : t4.nextU with
            | none => simp [h4, h5] at hres
            | some p5 =>
              obtain ⟨uI, t5⟩ := p5
              cases h6 : t5.nextU with
              | none => simp [h4, h5, h6] at hres
              | some p6 =>
                obtain ⟨uY, t6⟩ := p6
                simp [h4, h5, h6] at hres
                rw [← hres]
                exact tauDecayStep_nonneg T lep st uI uY hst

/-- primary fractions: non-negative, sum `≤ 1`, `(0,y)` for neutral current, sum `= 1` for CC ν_e -/
theorem C14_primary_fractions (k : Kind) (f : Flavor) (y : ℝ) (hy0 : 0 ≤ y) (hy1 : y ≤ 1) :
    0 ≤ (primaryFractions k f y).1 ∧ 0 ≤ (primaryFractions k f y).2 ∧
    (primaryFractions k f y).1 + (primaryFractions k f y).2 ≤ 1 ∧
    (k = .nc → primaryFractions k f y = (0, y)) ∧
    (k = .cc → f = .e → (primaryFractions k f y).1 + (primaryFractions k f y).2 = 1) := by
  cases k <;> cases f <;> simp [primaryFractions] <;> refine ⟨?_, ?_⟩ <;> linarith

/-- `choose_shower_fractions` (secondaries on or off): whatever the tape, a returned pair is
non-negative with `em + had ≤ 1`; it is either the primary pair or a secondary pair that passed the
energy-conservation test, and then `em + had ≤ 1 − y`. -/
theorem C14_fractions_bounds (sec : Bool) (k : Kind) (f : Flavor) (E y : ℝ) (hE : 0 < E) (hy0 : 0 ≤ y) (hy1 : y ≤ 1)
    (tabs : List SecTables) (t : Tape) (res : (ℝ × ℝ) × Tape)
    (hres : showerFractions sec k f E y tabs t = some res) :
    0 ≤ res.1.1 ∧ 0 ≤ res.1.2 ∧ res.1.1 + res.1.2 ≤ 1 ∧
    (res.1 = primaryFractions k f y ∨ res.1.1 + res.1.2 ≤ 1 - y) ∧
    (k = .nc → res.1 = (0, y)) := by
  have hp := C14_primary_fractions k f y hy0 hy1
  have prim_ok : ∀ r : (ℝ × ℝ) × Tape, r.1 = primaryFractions k f y →
      0 ≤ r.1.1 ∧ 0 ≤ r.1.2 ∧ r.1.1 + r.1.2 ≤ 1 ∧ (r.1 = primaryFractions k f y ∨ r.1.1 + r.1.2 ≤ 1 - y) ∧
      (k = .nc → r.1 = (0, y)) := by
    intro r hr
    rw [hr]
    exact ⟨hp.1, hp.2.1, hp.2.2.1, Or.inl rfl, hp.2.2.2.1⟩
  unfold showerFractions at hres
  by_cases hs : sec = false
  · simp [hs] at hres; exact prim_ok res (by rw [← hres])
  · simp only [hs, if_false] at hres
    cases k with
    | nc => simp at hres; exact prim_ok res (by rw [← hres])
    | cc =>
      simp only at hres
      -- induction over the retry loop
      have key : ∀ (n : ℕ) (t : Tape) (res : (ℝ × ℝ) × Tape) (T : SecTables),
          retryLoop f T (primaryFractions .cc f y) E (E * (1 - y)) n t = some res →
          0 ≤ res.1.1 ∧ 0 ≤ res.1.2 ∧ res.1.1 + res.1.2 ≤ 1 ∧
          (res.1 = primaryFractions .cc f y ∨ res.1.1 + res.1.2 ≤ 1 - y) ∧ (Kind.cc = .nc → res.1 = (0, y)) := by
        intro n
        induction n with
        | zero => intro t res T h; simp [retryLoop] at h
        | succ n ih =>
          intro t res T h
          simp only [retryLoop] at h
          cases hc : chooseSecondary f T (E * (1 - y)) t with
          | none => simp [hc] at h
          | some p =>
            obtain ⟨s, t1⟩ := p
            have hnn := chooseSecondary_nonneg f T _ t _ hc
            simp only [hc, Option.bind_eq_bind, Option.bind_some] at h
            by_cases hcons : s.1 + s.2 ≤ E * (1 - y)
            · rw [if_pos hcons] at h
              have h := Option.some.inj h
              rw [← h]
              unfold pickFractions
              by_cases hbig : ((primaryFractions Kind.cc f y).1 + (primaryFractions Kind.cc f y).2) * E < s.1 + s.2
              · rw [if_pos hbig]
                have h1 : 0 ≤ s.1 / E := div_nonneg hnn.1 hE.le
                have h2 : 0 ≤ s.2 / E := div_nonneg hnn.2 hE.le
                have h3 : s.1 / E + s.2 / E ≤ 1 - y := by
                  rw [← add_div, div_le_iff₀ hE]; linarith
                exact ⟨h1, h2, by linarith, Or.inr h3, fun hk => by cases hk⟩
              · rw [if_neg hbig]
                exact prim_ok (primaryFractions Kind.cc f y, t1) rfl
            · rw [if_neg hcons] at h
              exact ih t1 res T h
      exact key 1000 t res _ hres

/-! ## interaction type -/

/-- CTW: the type is neutral current exactly when the draw is below `nc_frac`, which lies strictly
between 0 and 1 for `ε ∈ [3,12]`; hence the set of draws `u ∈ [0,1)` giving NC has Lebesgue measure
`nc_frac` (probability of NC under a uniform variate).  GQRS: CC has probability `0.6865254`. -/
theorem C14_nc_prob (E : ℝ) (heps : 3 ≤ log10R E ∧ log10R E ≤ 12) :
    (∀ u, ctwKind E u = .nc ↔ u < ctwNcFrac (log10R E)) ∧
    0 < ctwNcFrac (log10R E) ∧ ctwNcFrac (log10R E) < 1 ∧
    MeasureTheory.volume {u : ℝ | 0 ≤ u ∧ u < 1 ∧ ctwKind E u = .nc} = ENNReal.ofReal (ctwNcFrac (log10R E)) ∧
    MeasureTheory.volume {u : ℝ | 0 ≤ u ∧ u < 1 ∧ gqrsKind u = .cc} = ENNReal.ofReal (6865254 / 10 ^ 7) := by
  have hk : ∀ u, ctwKind E u = .nc ↔ u < ctwNcFrac (log10R E) := by
    intro u; unfold ctwKind; split_ifs with h <;> simp [h]
  have hx : 1 < log10R E - cst PyrexGen.Interaction.ctwD 0 := by
    cst_simp; linarith [heps.1]
  have hx2 : log10R E - cst PyrexGen.Interaction.ctwD 0 ≤ 11 := by
    cst_simp; linarith [heps.2]
  have hlog0 : 0 < Real.log (log10R E - cst PyrexGen.Interaction.ctwD 0) := Real.log_pos hx
  have hlog1 : Real.log (log10R E - cst PyrexGen.Interaction.ctwD 0) ≤ 10 := by
    have := Real.log_le_sub_one_of_pos (lt_trans one_pos hx); linarith
  have hd1 : cst PyrexGen.Interaction.ctwD 1 = 252162 / 10 ^ 6 := by
    cst_simp
  have hd2 : cst PyrexGen.Interaction.ctwD 2 = 256 / 10 ^ 4 := by
    cst_simp
  have hpos : 0 < ctwNcFrac (log10R E) := by
    unfold ctwNcFrac; simp only [Rlog]; rw [hd1, hd2]; nlinarith
  have hlt : ctwNcFrac (log10R E) < 1 := by
    unfold ctwNcFrac; simp only [Rlog]; rw [hd1, hd2]; nlinarith
  refine ⟨hk, hpos, hlt, ?_, ?_⟩
  · have : {u : ℝ | 0 ≤ u ∧ u < 1 ∧ ctwKind E u = .nc} = Set.Ico 0 (ctwNcFrac (log10R E)) := by
      ext u; simp only [Set.mem_setOf_eq, Set.mem_Ico, hk]
      constructor
      · rintro ⟨a, _, c⟩; exact ⟨a, c⟩
      · rintro ⟨a, c⟩; exact ⟨a, by linarith, c⟩
    rw [this, Real.volume_Ico]; simp
  · have hc : cst PyrexGen.Interaction.gqrsCcProb 0 = 6865254 / 10 ^ 7 := by
      cst_simp
    have : {u : ℝ | 0 ≤ u ∧ u < 1 ∧ gqrsKind u = .cc} = Set.Ico 0 (6865254 / 10 ^ 7) := by
      ext u; simp only [Set.mem_setOf_eq, Set.mem_Ico, gqrsKind, hc]
      constructor
      · rintro ⟨a, _, c⟩
        by_contra hcon
        have : ¬ u < 6865254 / 10 ^ 7 := fun h => hcon ⟨a, h⟩
        simp [this] at c
      · rintro ⟨a, c⟩; exact ⟨a, by norm_num at c ⊢; linarith, by simp [c]⟩
    rw [this, Real.volume_Ico]; simp

/-! ## cross sections -/

/-- all cross sections are positive (for a positive energy) -/
theorem C14_sigma_pos (m : IModel) (anti : Bool) (k : Kind) (E : ℝ) (hE : 0 < E) :
    0 < sigma m anti k E ∧ 0 < sigmaTotal m anti E := by
  have h10 : ∀ x : ℝ, 0 < (10:ℝ) ^ x := fun x => Real.rpow_pos_of_pos (by norm_num) x
  cases m with
  | ctw =>
    simp only [sigma, sigmaTotal, ctwSigma, ctwSigmaTotal, ctwSigmaRow, Rpow]
    exact ⟨h10 _, add_pos (h10 _) (h10 _)⟩
  | gqrs =>
    have hp : 0 < E ^ (cst (gqrsRow anti k) 1) := Real.rpow_pos_of_pos hE _
    have hp' : 0 < E ^ (cst (gqrsTotalRow anti) 1) := Real.rpow_pos_of_pos hE _
    simp only [sigma, sigmaTotal, gqrsSigma, gqrsSigmaTotal, powerLaw, Rpow]
    constructor
    · apply mul_pos _ hp
      cases anti <;> cases k <;>
        cst_simp
    · apply mul_pos _ hp'
      cases anti <;>
        cst_simp

/-- cubic positivity `2c₃g³ + c₂g² − c₄ > 0` (`g > 0`) for each of the four extracted CTW rows -/
private theorem ctw_cubic (anti : Bool) (k : Kind) (g : ℝ) (hg : 0 < g) :
    0 < 2 * cst (ctwRow anti k) 3 * g ^ 3 + cst (ctwRow anti k) 2 * g ^ 2 - cst (ctwRow anti k) 4 := by
  cases anti <;> cases k <;>
    cst_simp
  · nlinarith [mul_nonneg (sq_nonneg (g - 1.4922)) hg.le, sq_nonneg (g - 1.4922), hg]
  · nlinarith [mul_nonneg (sq_nonneg (g - 1.502)) hg.le, sq_nonneg (g - 1.502), hg]
  · nlinarith [mul_nonneg (sq_nonneg (g - 1.5396)) hg.le, sq_nonneg (g - 1.5396), hg]
  · nlinarith [mul_nonneg (sq_nonneg (g - 1.55)) hg.le, sq_nonneg (g - 1.55), hg]

private theorem ctw_c3_nonneg (anti : Bool) (k : Kind) : 0 ≤ cst (ctwRow anti k) 3 := by
  cases anti <;> cases k <;>
    cst_simp

private theorem ctw_c0_neg (anti : Bool) (k : Kind) : cst (ctwRow anti k) 0 ≤ -1 := by
  cases anti <;> cases k <;>
    cst_simp

/-- Every cross section increases strictly with energy.  CTW: `E ↦ 10^{p(ln(log₁₀E − c₀))}` with
`p(L) = c₁ + c₂L + c₃L² + c₄/L` increasing on `L > 0` by cubic positivity of the extracted row; the
hypothesis `1 ≤ E` makes `L > 0` (`c₀ ≤ −1`).  GQRS: a positive power law. -/
theorem C14_sigma_strict_mono (m : IModel) (anti : Bool) (k : Kind) (E₁ E₂ : ℝ) (h1 : 1 ≤ E₁) (h12 : E₁ < E₂) :
    sigma m anti k E₁ < sigma m anti k E₂ := by
  have hE1 : 0 < E₁ := by linarith
  cases m with
  | ctw =>
    simp only [sigma, ctwSigma, ctwSigmaRow, Rpow]
    rw [Real.rpow_lt_rpow_left_iff (by norm_num : (1:ℝ) < 10)]
    unfold ctwPoly ctwLogTerm
    simp only [Rlog]
    have heps := log10R_lt E₁ E₂ hE1 h12
    have heps0 : 0 ≤ log10R E₁ := by
      unfold log10R; simp only [Rlog]
      exact div_nonneg (Real.log_nonneg h1) (Real.log_pos (by norm_num)).le
    have hc0 := ctw_c0_neg anti k
    have hx1 : 1 < log10R E₁ - cst (ctwRow anti k) 0 ∨ 1 = log10R E₁ - cst (ctwRow anti k) 0 := by
      rcases lt_or_eq_of_le (show 1 ≤ log10R E₁ - cst (ctwRow anti k) 0 by linarith) with h | h
      · exact Or.inl h
      · exact Or.inr h
    have hx2 : 1 < log10R E₂ - cst (ctwRow anti k) 0 := by linarith
    have hL2 : 0 < Real.log (log10R E₂ - cst (ctwRow anti k) 0) := Real.log_pos hx2
    rcases hx1 with hx1 | hx1
    · have hL1 : 0 < Real.log (log10R E₁ - cst (ctwRow anti k) 0) := Real.log_pos hx1
      have hL12 : Real.log (log10R E₁ - cst (ctwRow anti k) 0) < Real.log (log10R E₂ - cst (ctwRow anti k) 0) :=
        Real.log_lt_log (by linarith) (by linarith)
      exact polyLog_strictMono _ _ _ _ (ctw_c3_nonneg anti k) (ctw_cubic anti k) _ _ hL1 hL12
    · -- L₁ = 0: the source divides by zero there; Lean's `x/0 = 0` makes the value `c₁`; excluded below
      exfalso
      -- log10R E₁ = c₀ + 1 ≤ 0 together with E₁ ≥ 1 forces log10R E₁ = 0 and c₀ = −1, impossible for the rows
      have : cst (ctwRow anti k) 0 < -1 := by
        cases anti <;> cases k <;>
          cst_simp
      linarith
  | gqrs =>
    simp only [sigma, gqrsSigma, powerLaw, Rpow]
    have hpow : 0 < cst (gqrsRow anti k) 1 := by
      cases anti <;> cases k <;>
        cst_simp
    have hco : 0 < cst (gqrsRow anti k) 0 := by
      cases anti <;> cases k <;>
        cst_simp
    exact mul_lt_mul_of_pos_left (Real.rpow_lt_rpow hE1.le h12 hpow) hco

/-- default model (CTW): the rows written out in `total_cross_section` are the rows of `cross_section`
(decided on the extracted literals), so `σ_cc + σ_nc = σ_total` at every energy -/
theorem C14_cc_plus_nc_eq_total (anti : Bool) (E : ℝ) :
    sigma .ctw anti .cc E + sigma .ctw anti .nc E = sigmaTotal .ctw anti E := by
  have h1 : PyrexGen.Interaction.ctwTotalNuCc = PyrexGen.Interaction.ctwNuCc := by decide
  have h2 : PyrexGen.Interaction.ctwTotalNuNc = PyrexGen.Interaction.ctwNuNc := by decide
  have h3 : PyrexGen.Interaction.ctwTotalNubarCc = PyrexGen.Interaction.ctwNubarCc := by decide
  have h4 : PyrexGen.Interaction.ctwTotalNubarNc = PyrexGen.Interaction.ctwNubarNc := by decide
  cases anti <;> simp [sigma, sigmaTotal, ctwSigma, ctwSigmaTotal, ctwTotalRow, ctwRow, h1, h2, h3, h4]

/-- interaction lengths are `1/(N_A σ)` with `N_A = 6.02214076·10²³`, and positive -/
theorem C14_length_def (m : IModel) (anti : Bool) (k : Kind) (E : ℝ) (hE : 0 < E) :
    interactionLength m anti k E = 1 / (6.02214076e23 * sigma m anti k E) ∧
    totalInteractionLength m anti E = 1 / (6.02214076e23 * sigmaTotal m anti E) ∧
    0 < interactionLength m anti k E ∧ 0 < totalInteractionLength m anti E := by
  have hNA : avogadro = 6.02214076e23 := by
    cst_simp
  have hs := C14_sigma_pos m anti k E hE
  unfold interactionLength totalInteractionLength lengthOf
  rw [hNA]
  exact ⟨rfl, rfl, div_pos one_pos (mul_pos (by norm_num) hs.1), div_pos one_pos (mul_pos (by norm_num) hs.2)⟩

/-! ## non-vacuity -/
example : (3:ℝ) ≤ 7 ∧ (7:ℝ) ≤ 12 ∧ (0:ℝ) ≤ 0.4 ∧ (0.4:ℝ) ≤ 1 := by norm_num
example : (1:ℝ) ≤ 1000 ∧ (1000:ℝ) < 2000 := by norm_num

/-! ## event tree -/
open PyrexD.Tree

theorem C14_init_wellFormed (roots : List Nat) : WellFormed (init roots) where
  lenEq := by simp [init]
  rootsPrefix := by simp [init]
  rootsLe := by simp [init]
  flat := by simp [init, flatten_empties]
  after := by
    intro p h i hi
    simp [init] at hi

/-- `add_children` preserves well-formedness of the index structure (any parent in the tree, any children) -/
theorem C14_add_wellFormed (e e' : Ev) (p : Nat) (cs : List Nat) (h : WellFormed e)
    (he : addChildren e p cs = some e') : WellFormed e' := by
  unfold addChildren at he
  cases hi : e.all.idxOf? p with
  | none => simp [hi] at he
  | some pi =>
    simp only [hi, Option.some.injEq] at he
    obtain ⟨hlt, _, _⟩ := List.idxOf?_eq_some_iff.mp hi
    have hpl : pi < (e.children ++ cs.map (fun _ => ([] : List Nat))).length := by
      simp [h.lenEq]; omega
    subst he
    refine ⟨?_, ?_, ?_, ?_, ?_⟩
    · simp [List.length_modify, h.lenEq]
    · simp only
      rw [List.take_append_of_le_length h.rootsLe]; exact h.rootsPrefix
    · simp only [List.length_append]; have := h.rootsLe; omega
    · simp only [List.length_append]
      have h1 := flatten_modify_perm (e.children ++ cs.map (fun _ => ([] : List Nat))) pi
        ((List.range cs.length).map (· + e.all.length)) hpl
      refine h1.trans ?_
      rw [List.flatten_append, flatten_empties, List.append_nil]
      have hsplit : List.range' e.roots.length (e.all.length + cs.length - e.roots.length)
          = List.range' e.roots.length (e.all.length - e.roots.length) ++ List.range' e.all.length cs.length := by
        have := h.rootsLe
        have e1 : e.all.length + cs.length - e.roots.length = (e.all.length - e.roots.length) + cs.length := by omega
        have e2 : e.all.length = e.roots.length + 1 * (e.all.length - e.roots.length) := by omega
        rw [e1, ← List.range'_append (step := 1), ← e2]
      rw [hsplit]
      apply List.Perm.append h.flat
      have : (List.range cs.length).map (· + e.all.length) = List.range' e.all.length cs.length := by
        have hf : (fun x => x + e.all.length) = (fun x => e.all.length + x) := by funext x; omega
        rw [List.range_eq_range', hf, List.map_add_range']; simp
      rw [this]
    · intro q hq i hiq
      rw [List.getElem_modify] at hiq
      rw [List.length_modify] at hq
      by_cases hqold : q < e.children.length
      · have hget : (e.children ++ cs.map (fun _ => ([] : List Nat)))[q] = e.children[q] :=
          List.getElem_append_left hqold
        by_cases hpq : pi = q
        · subst hpq
          simp only [if_true, hget, List.mem_append, List.mem_map, List.mem_range] at hiq
          rcases hiq with hiq | ⟨a, _, rfl⟩
          · exact h.after pi hqold i hiq
          · omega
        · simp only [hpq, if_false, hget] at hiq
          exact h.after q hqold i hiq
      · have hget : (e.children ++ cs.map (fun _ => ([] : List Nat)))[q] = [] := by
          rw [List.getElem_append_right (by omega)]; simp
        have hne : pi ≠ q := by have := h.lenEq; omega
        simp only [hne, if_false] at hiq
        rw [hget] at hiq
        exact absurd hiq List.not_mem_nil

/-- error branch: `add_children` raises (`ValueError`) exactly when the parent is not a particle of the tree, and
then nothing is changed (the model returns `none`, no new state) -/
theorem C14_add_unknown_parent (e : Ev) (p : Nat) (cs : List Nat) :
    addChildren e p cs = none ↔ p ∉ e.all := by
  unfold addChildren
  cases hi : e.all.idxOf? p with
  | none =>
    simp only [true_iff]
    simpa using hi
  | some pi =>
    simp only [reduceCtorEq, false_iff, not_not]
    obtain ⟨hlt, hv, _⟩ := List.idxOf?_eq_some_iff.mp hi
    rw [← hv]; exact List.getElem_mem hlt

/-- error branch of the secondaries: when the 1000 tries are used up no pair is produced (`choose_shower_fractions`
then returns `None` and `Interaction.__init__` fails with `TypeError` — reachable only by a tape on which a thousand
consecutive secondary sets violate energy conservation) -/
theorem C14_retry_exhausted (f : Flavor) (T : SecTables) (prim : ℝ × ℝ) (E lep : ℝ) (t : Tape) :
    retryLoop f T prim E lep 0 t = none := rfl

/-- every event reachable by a history of `add_children` calls is well formed -/
theorem C14_history_wellFormed (roots : List Nat) (ops : List (Nat × List Nat)) (e : Ev)
    (h : build roots ops = some e) : WellFormed e := by
  unfold build at h
  have key : ∀ (ops : List (Nat × List Nat)) (e0 e : Ev), WellFormed e0 →
      ops.foldlM (fun e op => addChildren e op.1 op.2) e0 = some e → WellFormed e := by
    intro ops
    induction ops with
    | nil => intro e0 e hw h; simp at h; rw [← h]; exact hw
    | cons op ops ih =>
      intro e0 e hw h
      simp only [List.foldlM_cons] at h
      cases h1 : addChildren e0 op.1 op.2 with
      | none => simp [h1] at h
      | some e1 =>
        simp [h1] at h
        exact ih e1 e (C14_add_wellFormed e0 e1 _ _ hw h1) h
  exact key ops _ e (C14_init_wellFormed roots) h

/-- Iteration returns the roots followed by every particle handed to `add_children`, in order; so if
the particles handed over are distinct, every one of them is returned exactly once and nothing else. -/
theorem C14_iter_nodup_complete (roots : List Nat) (ops : List (Nat × List Nat)) (e : Ev)
    (h : build roots ops = some e) :
    iter e = roots ++ (ops.map (·.2)).flatten ∧ len e = roots.length + ((ops.map (·.2)).flatten).length ∧
    ((roots ++ (ops.map (·.2)).flatten).Nodup →
      (iter e).Nodup ∧ ∀ x, x ∈ iter e ↔ (x ∈ roots ∨ ∃ op ∈ ops, x ∈ op.2)) := by
  have := foldlM_all ops (init roots) e h
  have hall : e.all = roots ++ (ops.map (·.2)).flatten := by rw [this.1]; rfl
  refine ⟨hall, by simp [len, hall], ?_⟩
  intro hnd
  refine ⟨by rw [iter, hall]; exact hnd, ?_⟩
  intro x
  rw [iter, hall]
  simp only [List.mem_append, List.mem_flatten, List.mem_map]
  constructor
  · rintro (hx | ⟨l, ⟨op, hop, rfl⟩, hx⟩)
    · exact Or.inl hx
    · exact Or.inr ⟨op, hop, hx⟩
  · rintro (hx | ⟨op, hop, hx⟩)
    · exact Or.inl hx
    · exact Or.inr ⟨op.2, ⟨op, hop, rfl⟩, hx⟩

/-- the event owns its roots: along every history of `add_children` calls `roots` stays the list the event was
constructed with, and level 0 returns exactly it (F24: the code keeps its own copy and hands out a copy) -/
theorem C14_roots_fixed (roots : List Nat) (ops : List (Nat × List Nat)) (e : Ev) (h : build roots ops = some e) :
    e.roots = roots ∧ fromLevel e 0 = some roots := by
  have hr : e.roots = roots := (foldlM_all ops (init roots) e h).2
  exact ⟨hr, by show some e.roots = some roots; rw [hr]⟩

/-- level 0 is the list of roots; level `n+1` is the concatenation of the children of level `n` -/
theorem C14_roots_level_zero (e : Ev) : fromLevel e 0 = some e.roots := rfl

theorem C14_level_consistent (e : Ev) (n : Nat) (prev : List Nat) (h : fromLevel e n = some prev) :
    fromLevel e (n + 1) = prev.foldlM (fun acc p => (getChildren e p).map (acc ++ ·)) [] := by
  simp [fromLevel, h]

private theorem findParentIdx_spec (ci : Nat) (ch : List (List Nat)) (k pi : Nat)
    (h : findParentIdx ci ch k = some pi) : ∃ j, ∃ hj : j < ch.length, pi = k + j ∧ ci ∈ ch[j] := by
  induction ch generalizing k with
  | nil => simp [findParentIdx] at h
  | cons l rest ih =>
    by_cases hc : ci ∈ l
    · simp [findParentIdx, hc] at h
      exact ⟨0, by simp, by omega, by simpa using hc⟩
    · simp [findParentIdx, hc] at h
      obtain ⟨j, hj, hpi, hmem⟩ := ih (k + 1) h
      exact ⟨j + 1, by simp; omega, by omega, by simpa using hmem⟩

/-- parent/child consistency, first direction: in a well-formed event with distinct particles, if
`get_parent(c)` is the particle `p` then `c` is among `get_children(p)` -/
private theorem parent_imp_child (e : Ev) (hw : WellFormed e) (hnd : e.all.Nodup) (c p : Nat)
    (h : getParent e c = some (some p)) : ∃ kids, getChildren e p = some kids ∧ c ∈ kids := by
  unfold getParent at h
  cases hci : e.all.idxOf? c with
  | none => simp [hci] at h
  | some ci =>
    simp only [hci] at h
    cases hf : findParentIdx ci e.children 0 with
    | none => simp [hf] at h
    | some pi =>
      simp only [hf, Option.some.injEq] at h
      obtain ⟨j, hj, hpi, hmem⟩ := findParentIdx_spec ci e.children 0 pi hf
      have hpij : pi = j := by omega
      subst hpij
      have hlt : pi < e.all.length := by rw [← hw.lenEq]; exact hj
      have hp : e.all[pi] = p := by
        rw [List.getElem?_eq_getElem hlt] at h; exact Option.some.inj h
      obtain ⟨hcl, hcv, _⟩ := List.idxOf?_eq_some_iff.mp hci
      have hidx : e.all.idxOf? p = some pi := by
        rw [List.idxOf?_eq_some_iff]
        refine ⟨hlt, hp, ?_⟩
        intro j' hj' hcon
        have : j' = pi := (List.Nodup.getElem_inj_iff hnd).mp (by rw [hcon, hp])
        omega
      refine ⟨(e.children.getD pi []).filterMap (fun i => e.all[i]?), by simp [getChildren, hidx], ?_⟩
      rw [List.mem_filterMap]
      refine ⟨ci, ?_, by rw [List.getElem?_eq_getElem hcl, hcv]⟩
      rw [List.getD_eq_getElem?_getD, List.getElem?_eq_getElem hj]; exact hmem

/-- … and the converse: a child of `p` has `p` as its parent, because `WellFormed.flat` makes every index occur in
exactly one child list -/
private theorem child_imp_parent (e : Ev) (hw : WellFormed e) (hnd : e.all.Nodup) (c p : Nat) (kids : List Nat)
    (h : getChildren e p = some kids) (hc : c ∈ kids) : getParent e c = some (some p) := by
  unfold getChildren at h
  cases hpi : e.all.idxOf? p with
  | none => simp [hpi] at h
  | some pi =>
    simp only [hpi, Option.some.injEq] at h
    subst h
    obtain ⟨ci, hci, hall⟩ := List.mem_filterMap.mp hc
    obtain ⟨hplt, hpv, _⟩ := List.idxOf?_eq_some_iff.mp hpi
    have hpl : pi < e.children.length := by rw [hw.lenEq]; exact hplt
    rw [List.getD_eq_getElem?_getD, List.getElem?_eq_getElem hpl] at hci
    simp only [Option.getD_some] at hci
    have hcl : ci < e.all.length := by
      by_contra hcon
      rw [List.getElem?_eq_none (by omega)] at hall
      cases hall
    have hcv : e.all[ci] = c := by
      rw [List.getElem?_eq_getElem hcl] at hall; exact Option.some.inj hall
    have hidx : e.all.idxOf? c = some ci := by
      rw [List.idxOf?_eq_some_iff]
      refine ⟨hcl, hcv, ?_⟩
      intro j' hj' hcon
      have : j' = ci := (List.Nodup.getElem_inj_iff hnd).mp (by rw [hcon, hcv])
      omega
    obtain ⟨pi', hf⟩ := findParentIdx_complete ci e.children 0 pi hpl hci
    obtain ⟨j, hj, hpij, hmem⟩ := findParentIdx_spec ci e.children 0 pi' hf
    have hjj : pi' = j := by omega
    subst hjj
    have hflat : e.children.flatten.Nodup := (hw.flat.nodup_iff).mpr (List.nodup_range' 1)
    have heq : pi' = pi := by
      rcases Nat.lt_trichotomy pi' pi with hlt | heq | hgt
      · exact absurd hci (flatten_nodup_disjoint _ hflat pi' pi hj hpl hlt ci hmem)
      · exact heq
      · exact absurd hmem (flatten_nodup_disjoint _ hflat pi pi' hpl hj hgt ci hci)
    subst heq
    unfold getParent
    simp only [hidx, hf]
    rw [List.getElem?_eq_getElem hplt, hpv]

/-- Parent, children queries are mutually consistent: in a well-formed event (every event reachable by
`add_children` is, `C14_history_wellFormed`) with distinct particles, `c ∈ get_children(p)` **iff**
`get_parent(c) = p`. -/
theorem C14_parent_child_consistent (e : Ev) (hw : WellFormed e) (hnd : e.all.Nodup) (c p : Nat) :
    (∃ kids, getChildren e p = some kids ∧ c ∈ kids) ↔ getParent e c = some (some p) :=
  ⟨fun ⟨kids, h, hc⟩ => child_imp_parent e hw hnd c p kids h hc, parent_imp_child e hw hnd c p⟩

/-- every non-root particle has a parent and roots have none: `get_parent` of the particle at position `i` is
`None` exactly when `i` is a root position -/
theorem C14_roots_have_no_parent (e : Ev) (hw : WellFormed e) (hnd : e.all.Nodup) (i : Nat) (hi : i < e.all.length) :
    (getParent e e.all[i] = some none ↔ i < e.roots.length) := by
  have hidx : e.all.idxOf? e.all[i] = some i := by
    rw [List.idxOf?_eq_some_iff]
    refine ⟨hi, rfl, ?_⟩
    intro j hj hcon
    have : j = i := (List.Nodup.getElem_inj_iff hnd).mp hcon
    omega
  have hmemflat : i ∈ e.children.flatten ↔ e.roots.length ≤ i := by
    rw [hw.flat.mem_iff, List.mem_range'_1]
    have := hw.rootsLe
    constructor
    · intro h; exact h.1
    · intro h; exact ⟨h, by omega⟩
  unfold getParent
  simp only [hidx]
  cases hf : findParentIdx i e.children 0 with
  | none =>
    simp only [true_iff]
    by_contra hcon
    have : i ∈ e.children.flatten := hmemflat.mpr (by omega)
    obtain ⟨l, hl, hil⟩ := List.mem_flatten.mp this
    obtain ⟨j, hj, rfl⟩ := List.getElem_of_mem hl
    obtain ⟨pi, hpi⟩ := findParentIdx_complete i e.children 0 j hj hil
    rw [hf] at hpi; cases hpi
  | some pi =>
    obtain ⟨j, hj, _, hmem⟩ := findParentIdx_spec i e.children 0 pi hf
    have : e.roots.length ≤ i := hmemflat.mp (List.mem_flatten.mpr ⟨_, List.getElem_mem hj, hmem⟩)
    have hpl : pi < e.all.length := by
      obtain ⟨j', hj', hpij, _⟩ := findParentIdx_spec i e.children 0 pi hf
      rw [← hw.lenEq]; omega
    simp only [List.getElem?_eq_getElem hpl, Option.some.injEq, reduceCtorEq, false_iff, not_lt]
    exact this

/-- non-vacuity: a concrete three-level history builds, is well formed and iterates once over 0..5 -/
example : (build [0, 1] [(0, [2, 3]), (3, [4]), (1, [5])]).map iter = some [0, 1, 2, 3, 4, 5] := by decide
example : (build [0, 1] [(0, [2, 3]), (3, [4]), (1, [5])]).bind (fun e => getParent e 4) = some (some 3) := by decide
