import PyrexVerif.Proofs.EarthTables
import PyrexVerif.Proofs.EarthGeom
import PyrexVerif.Proofs.EarthTrapz
/-!
# C15 — Earth density and slant depth equal the reference profile and its line integral

Theorems about the ℝ-reading `PyrexR` of `twin/Earth.body`; the Float reading of the same text is what
`Drivers/C15.lean` runs against `pyrex.earth_model`.  The shell tables `prem`, `coreMantleCrust` are
built from `Gen/EarthConstants.lean`, which is regenerated from `/repo` on every run.
-/
open PyrexR

/-! ## density -/

/-- The shell conditions built from sorted bounds are pairwise exclusive and cover `[lo, last bound)`. -/
theorem C15_shells_partition (lo : ℝ) (us : List ℝ) (ps : List (List ℝ)) (hlen : us.length = ps.length)
    (hs : (lo :: us).Pairwise (· ≤ ·)) (r : ℝ) :
    (mkShells lo us ps).Pairwise (fun s t => ¬ (s.holds r ∧ t.holds r)) ∧
    (∀ hne : us ≠ [], lo ≤ r → r < us.getLast hne → ∃ s ∈ mkShells lo us ps, s.holds r) :=
  ⟨mkShells_exclusive lo us ps hs r, fun hne h1 h2 => mkShells_cover lo us ps hlen hne r h1 h2⟩

/-- Both shipped tables are strictly sorted, start above 0, end at the Earth radius and have one density
entry per shell — so `C15_shells_partition` applies to them with `lo = 0`, covering `[0, R)`. -/
theorem C15_shells_partition_shipped :
    ((0:ℝ) :: genBounds PyrexGen.Earth.prem).Pairwise (· < ·) ∧
    (genBounds PyrexGen.Earth.prem).getLast? = some prem.radius ∧
    (genBounds PyrexGen.Earth.prem).length = (genPolys PyrexGen.Earth.prem).length ∧
    ((0:ℝ) :: genBounds PyrexGen.Earth.coreMantleCrust).Pairwise (· < ·) ∧
    (genBounds PyrexGen.Earth.coreMantleCrust).getLast? = some coreMantleCrust.radius ∧
    (genBounds PyrexGen.Earth.coreMantleCrust).length = (genPolys PyrexGen.Earth.coreMantleCrust).length := by
  refine ⟨prem_sorted, ?_, ?_, cmc_sorted, ?_, ?_⟩
  · rw [prem_bounds, prem_radius]; simp
  · simp [genBounds, genPolys, PyrexGen.Earth.prem]
  · rw [cmc_bounds, cmc_radius]; simp
  · simp [genBounds, genPolys, PyrexGen.Earth.coreMantleCrust]

/-- On a table with exclusive conditions the density at `r` is the polynomial of the shell containing `r`,
evaluated at the fractional radius. -/
theorem C15_density_eq_shell (M : EarthModel) (r : ℝ)
    (hex : M.shells.Pairwise (fun s t => ¬ (s.holds r ∧ t.holds r)))
    (s : Shell) (hs : s ∈ M.shells) (hr : s.holds r) :
    M.density r = evalPoly s.coeffs (r / M.radius) := density_of_mem M r hex s hs hr

private theorem sorted_le_of_lt {l : List ℝ} (h : l.Pairwise (· < ·)) : l.Pairwise (· ≤ ·) :=
  h.imp (fun h => le_of_lt h)

private theorem outside_zero_aux (g : PyrexGen.Earth.Model) (hs : ((0:ℝ) :: genBounds g).Pairwise (· < ·))
    (hlast : (genBounds g).getLast? = some (decR g.radius)) (r : ℝ) (hr : r < 0 ∨ decR g.radius ≤ r) :
    (EarthModel.ofGen g).density r = 0 := by
  rw [density_eq_densFold]
  apply densFold_none
  intro s hsm hh
  rw [ofGen_shells] at hsm
  rcases hr with hr | hr
  · have := mkShells_lower_ge 0 _ _ (sorted_le_of_lt hs) s hsm
    have := hh.1
    linarith
  · have htop : ∀ u ∈ genBounds g, u ≤ decR g.radius := by
      intro u hu
      have hne : genBounds g ≠ [] := List.ne_nil_of_mem hu
      have hl : (genBounds g).getLast hne = decR g.radius := by
        have := List.getLast?_eq_some_getLast hne
        rw [hlast] at this; exact (Option.some.inj this).symm
      have hsorted := sorted_le_of_lt (List.pairwise_cons.mp hs).2
      have := sorted_le_getLast _ hsorted hne u hu
      linarith
    have := mkShells_upper_le 0 (decR g.radius) _ _ htop s hsm
    have := hh.2
    linarith

/-- Zero outside the Earth: below 0 and from `r = R` on (the last shell is half-open). -/
theorem C15_density_outside_zero (r : ℝ) :
    ((r < 0 ∨ prem.radius ≤ r) → prem.density r = 0) ∧
    ((r < 0 ∨ coreMantleCrust.radius ≤ r) → coreMantleCrust.density r = 0) := by
  obtain ⟨h1, h2, _, h4, h5, _⟩ := C15_shells_partition_shipped
  exact ⟨fun hr => outside_zero_aux _ h1 h2 r hr, fun hr => outside_zero_aux _ h4 h5 r hr⟩

/-- scalar and array evaluation agree (`np.piecewise` is elementwise) -/
theorem C15_density_scalar_eq_array (M : EarthModel) (rs : List ℝ) (i : Nat) (h : i < rs.length) :
    (M.densityArr rs)[i]'(by simpa [EarthModel.densityArr] using h) = M.density rs[i] := by
  simp [EarthModel.densityArr]

/-- Inside the Earth the density is the value of the containing shell and it is positive
(every extracted PREM polynomial is positive on its own shell). -/
theorem C15_density_pos_inside (r : ℝ) (h0 : 0 ≤ r) (hR : r < prem.radius) :
    ∃ s ∈ prem.shells, s.holds r ∧ prem.density r = evalPoly s.coeffs (r / prem.radius) ∧ 0 < prem.density r := by
  obtain ⟨h1, h2, h3, _, _, _⟩ := C15_shells_partition_shipped
  have hne : genBounds PyrexGen.Earth.prem ≠ [] := by rw [prem_bounds]; simp
  have hl : (genBounds PyrexGen.Earth.prem).getLast hne = prem.radius := by
    have := List.getLast?_eq_some_getLast hne
    rw [h2] at this; exact (Option.some.inj this).symm
  obtain ⟨s, hs, hh⟩ := mkShells_cover 0 _ _ h3 hne r h0 (by rw [hl]; exact hR)
  have hsh : prem.shells = mkShells 0 (genBounds PyrexGen.Earth.prem) (genPolys PyrexGen.Earth.prem) := rfl
  have hex := mkShells_exclusive 0 _ (genPolys PyrexGen.Earth.prem) (sorted_le_of_lt h1) r
  have hd := density_of_mem prem r (by rw [hsh]; exact hex) s (by rw [hsh]; exact hs) hh
  exact ⟨s, by rw [hsh]; exact hs, hh, hd, by rw [hd]; exact prem_shell_pos s (by rw [hsh]; exact hs) r hh⟩

/-- the three-layer model: same statement (constants 14, 3.4, 2.9) -/
theorem C15_density_pos_inside_cmc (r : ℝ) (h0 : 0 ≤ r) (hR : r < coreMantleCrust.radius) :
    0 < coreMantleCrust.density r := by
  obtain ⟨_, _, _, h1, h2, h3⟩ := C15_shells_partition_shipped
  have hne : genBounds PyrexGen.Earth.coreMantleCrust ≠ [] := by rw [cmc_bounds]; simp
  have hl : (genBounds PyrexGen.Earth.coreMantleCrust).getLast hne = coreMantleCrust.radius := by
    have := List.getLast?_eq_some_getLast hne
    rw [h2] at this; exact (Option.some.inj this).symm
  obtain ⟨s, hs, hh⟩ := mkShells_cover 0 _ _ h3 hne r h0 (by rw [hl]; exact hR)
  have hsh : coreMantleCrust.shells
      = mkShells 0 (genBounds PyrexGen.Earth.coreMantleCrust) (genPolys PyrexGen.Earth.coreMantleCrust) := rfl
  have hex := mkShells_exclusive 0 _ (genPolys PyrexGen.Earth.coreMantleCrust) (sorted_le_of_lt h1) r
  have hd := density_of_mem coreMantleCrust r (by rw [hsh]; exact hex) s (by rw [hsh]; exact hs) hh
  rw [hd]
  have : s ∈ mkShells 0 (genBounds PyrexGen.Earth.coreMantleCrust) (genPolys PyrexGen.Earth.coreMantleCrust) := hs
  simp only [genBounds, genPolys, PyrexGen.Earth.coreMantleCrust, List.map, mkShells, List.mem_cons,
    List.not_mem_nil, or_false] at this
  rcases this with rfl | rfl | rfl <;> simp [evalPoly, evalPolyFrom, decR]

/-! ## chord geometry -/

/-- When the discriminant is non-negative, the point at parameter `chordDist` lies on the sphere
(`|e + dist·û| = R`); the line meets the sphere exactly at `dist` and at `−dot − √disc ≤ dist`; and if the
endpoint is inside the Earth the other parameter is `≤ 0`, i.e. `dist` is the exit point of the forward ray. -/
theorem C15_chord_exit (rad : ℝ) (hrad : 0 ≤ rad) (e u : EV3) (hu : dot3 u u = 1)
    (hD : 0 ≤ chordDisc rad e u) :
    sampleRadius e u (chordDist rad e u) 1 = rad ∧
    (∀ τ : ℝ, dot3 e e + 2 * τ * dot3 e u + τ ^ 2 = rad * rad ↔
        (τ = chordDist rad e u ∨ τ = -(dot3 e u) - Real.sqrt (chordDisc rad e u))) ∧
    -(dot3 e u) - Real.sqrt (chordDisc rad e u) ≤ chordDist rad e u ∧
    (dot3 e e ≤ rad * rad → -(dot3 e u) - Real.sqrt (chordDisc rad e u) ≤ 0) := by
  have hfac := line_sphere_factor rad e u hu hD
  have hs0 : 0 ≤ Real.sqrt (chordDisc rad e u) := Real.sqrt_nonneg _
  refine ⟨?_, ?_, ?_, ?_⟩
  · unfold sampleRadius
    rw [norm3_eq, dot3_samplePoint e u hu]
    have h := hfac (1 * chordDist rad e u)
    have : dot3 e e + 2 * (1 * chordDist rad e u) * dot3 e u + (1 * chordDist rad e u) ^ 2 = rad * rad := by
      have h0 : (1 * chordDist rad e u - (-(dot3 e u) - Real.sqrt (chordDisc rad e u)))
          * (1 * chordDist rad e u - chordDist rad e u) = 0 := by ring
      linarith
    rw [this, Real.sqrt_mul_self hrad]
  · intro τ
    constructor
    · intro h
      have h' := hfac τ
      have hz : (τ - (-(dot3 e u) - Real.sqrt (chordDisc rad e u))) * (τ - chordDist rad e u) = 0 := by
        linarith
      rcases mul_eq_zero.mp hz with h1 | h1
      · right; linarith
      · left; linarith
    · intro h
      have h' := hfac τ
      rcases h with h | h <;> rw [h] at h' ⊢ <;> nlinarith
  · unfold chordDist; simp only [Rsqrt]; linarith
  · intro hin
    have hsq := sq_sqrt_disc hD
    have hd : chordDisc rad e u = dot3 e u * dot3 e u - dot3 e e + rad * rad := rfl
    by_contra hcon
    push Not at hcon
    -- −d − s > 0 ⇒ −d > s ≥ 0 ⇒ d² > s² = disc ≥ d²
    nlinarith

/-- zero cases: the code returns 0 when the discriminant or the distance is not positive … -/
theorem C15_zero_cases (M : EarthModel) (e u : EV3) (step : ℝ) :
    (chordDisc M.radius e u ≤ 0 → M.slantCore e u step = 0) ∧
    (chordDist M.radius e u ≤ 0 → M.slantCore e u step = 0) := by
  constructor
  · intro h; simp [EarthModel.slantCore, h]
  · intro h
    by_cases h' : chordDisc M.radius e u ≤ 0 <;> simp [EarthModel.slantCore, h, h']

/-- … and that covers every chord that does not enter the Earth: if no point of the forward ray lies
strictly inside the sphere, the slant depth is 0. -/
theorem C15_zero_cases_geometric (M : EarthModel) (e u : EV3) (hu : dot3 u u = 1) (step : ℝ)
    (hmiss : ∀ τ : ℝ, 0 < τ → M.radius * M.radius ≤ dot3 e e + 2 * τ * dot3 e u + τ ^ 2) :
    M.slantCore e u step = 0 := by
  by_cases hD : chordDisc M.radius e u ≤ 0
  · exact (C15_zero_cases M e u step).1 hD
  by_cases hd : chordDist M.radius e u ≤ 0
  · exact (C15_zero_cases M e u step).2 hd
  exfalso
  push Not at hD hd
  have hfac := line_sphere_factor M.radius e u hu hD.le
  have hs : 0 < Real.sqrt (chordDisc M.radius e u) := Real.sqrt_pos.mpr hD
  set t1 := -(dot3 e u) - Real.sqrt (chordDisc M.radius e u) with ht1
  set t2 := chordDist M.radius e u with ht2
  have h12 : t1 < t2 := by rw [ht1, ht2]; unfold chordDist; simp only [Rsqrt]; linarith
  by_cases hneg : t1 ≤ 0
  · have := hmiss (t2 / 2) (by linarith)
    have := hfac (t2 / 2)
    nlinarith
  · push Not at hneg
    have := hmiss ((t1 + t2) / 2) (by linarith)
    have := hfac ((t1 + t2) / 2)
    nlinarith

/-- radius of the sample at parameter `t` -/
theorem C15_sample_radius_formula (e u : EV3) (hu : dot3 u u = 1) (dist t : ℝ) :
    sampleRadius e u dist t = Real.sqrt (dot3 e e + 2 * (t * dist) * dot3 e u + (t * dist) ^ 2) := by
  unfold sampleRadius; rw [norm3_eq, dot3_samplePoint e u hu]

/-- The exit node (`t = 1`) lies on `r = R`, hence outside the half-open last shell: over ℝ it gets density 0
(in floating point its radius is `R(1 ± ε)`, so the code gives it either the crust density or 0). -/
theorem C15_exit_node_outside (e u : EV3) (hu : dot3 u u = 1) (hD : 0 ≤ chordDisc prem.radius e u) :
    prem.density (sampleRadius e u (chordDist prem.radius e u) 1) = 0 := by
  have hr : (0:ℝ) ≤ prem.radius := by rw [prem_radius]; norm_num
  rw [(C15_chord_exit prem.radius hr e u hu hD).1]
  exact (C15_density_outside_zero prem.radius).1 (Or.inr (le_refl _))

/-! ## invariances -/

/-- joint rotation of endpoint and direction about the vertical through the Earth's centre -/
theorem C15_azimuth_invariant (M : EarthModel) (c s : ℝ) (hcs : c * c + s * s = 1) (p d : EV3) (step : ℝ) :
    M.slantDepth (rotZ c s p) (rotZ c s d) step = M.slantDepth p d step := by
  unfold EarthModel.slantDepth
  have hshift : M.shift (rotZ c s p) = rotZ c s (M.shift p) := rfl
  rw [hshift, normalize_rotZ c s hcs]
  unfold EarthModel.slantCore EarthModel.chordSamples
  simp only [chordDisc_rotZ c s hcs, chordDist_rotZ c s hcs, sampleRadius_rotZ c s hcs]

/-- the length of the direction vector does not matter -/
theorem C15_direction_scale_invariant (M : EarthModel) (k : ℝ) (hk : 0 < k) (p d : EV3) (hd : 0 < norm3 d)
    (step : ℝ) : M.slantDepth p (smul3 k d) step = M.slantDepth p d step := by
  unfold EarthModel.slantDepth
  rw [normalize_smul k hk d hd]

/-! ## discretisation -/

/-- `n_steps = ⌈distance/step⌉` -/
theorem C15_n_steps_ceil (dist step : ℝ) (hd : 0 < dist) (hs : 0 < step) :
    (nSteps dist step : ℤ) = ⌈dist / step⌉ := by
  have hq : 0 ≤ dist / step := (div_pos hd hs).le
  have hfl : 0 ≤ ⌊dist / step⌋ := Int.floor_nonneg.mpr hq
  unfold nSteps
  simp only [Rtrunc, Rfloor, RofInt, hq, if_true]
  by_cases hz : dist - step * (⌊dist / step⌋ : ℝ) = 0
  · have hq' : dist / step = ⌊dist / step⌋ := by field_simp; linarith
    have hc : ⌈dist / step⌉ = ⌊dist / step⌋ := by rw [hq']; simp
    have hno : ¬ (dist - step * (⌊dist / step⌋ : ℝ) < 0 ∨ 0 < dist - step * (⌊dist / step⌋ : ℝ)) := by
      rw [hz]; simp
    rw [if_neg hno, hc, Int.toNat_of_nonneg hfl]
  · have hyes : dist - step * (⌊dist / step⌋ : ℝ) < 0 ∨ 0 < dist - step * (⌊dist / step⌋ : ℝ) :=
      lt_or_gt_of_ne hz
    rw [if_pos hyes, Int.toNat_of_nonneg (by linarith)]
    have hne : (⌊dist / step⌋ : ℝ) ≠ dist / step := by
      intro h; apply hz; rw [h]; field_simp; ring
    have hlt : (⌊dist / step⌋ : ℝ) < dist / step := lt_of_le_of_ne (Int.floor_le _) hne
    symm
    rw [Int.ceil_eq_iff]
    constructor
    · push_cast; linarith
    · push_cast; linarith [Int.lt_floor_add_one (dist / step)]

/-- A chord not longer than one step has a single node and therefore column 0: `0 < dist ≤ step` gives `n_steps = 1`,
`np.linspace(0,1,1) = [0]` and an empty trapezoid sum.  (The real code returns 0.0 for, e.g., a vertical chord from
500 m depth with the default step; this is the extreme case of "within the discretisation error of the step": the
error is the whole column `≤ 100·ρ·step`.) -/
theorem C15_short_chord_zero (M : EarthModel) (e u : EV3) (step : ℝ)
    (hd : 0 < chordDist M.radius e u) (hs : chordDist M.radius e u ≤ step) :
    nSteps (chordDist M.radius e u) step = 1 ∧ M.slantCore e u step = 0 := by
  have hstep : 0 < step := lt_of_lt_of_le hd hs
  have hn : (nSteps (chordDist M.radius e u) step : ℤ) = 1 := by
    rw [C15_n_steps_ceil _ _ hd hstep, Int.ceil_eq_iff]
    constructor
    · simp; exact div_pos hd hstep
    · simp; rw [div_le_one hstep]; exact hs
  have hn' : nSteps (chordDist M.radius e u) step = 1 := by exact_mod_cast hn
  refine ⟨hn', ?_⟩
  unfold EarthModel.slantCore
  rw [hn']
  by_cases h1 : chordDisc M.radius e u ≤ 0
  · simp [h1]
  · have h2 : ¬ chordDist M.radius e u ≤ 0 := not_le.mpr hd
    simp [h1, h2, linspace01, EarthModel.chordSamples, trapz]

/-- `np.linspace(0,1,n)` is the uniform grid `i/(n−1)` (the last element, set to 1, is `(n−1)/(n−1)`) -/
theorem C15_linspace_uniform (n : ℕ) (hn : 2 ≤ n) :
    linspace01 n = (List.range' 0 n).map (fun (i : ℕ) => (i : ℝ) * (1 / ((n - 1 : ℕ) : ℝ))) := by
  obtain ⟨m, rfl⟩ : ∃ m, n = m + 2 := ⟨n - 2, by omega⟩
  have h1 : ¬ m + 2 = 0 := by omega
  have h2 : ¬ m + 2 = 1 := by omega
  have hm : m + 2 - 1 = m + 1 := by omega
  simp only [linspace01, h1, h2, if_false, RofNat, hm]
  rw [List.range_eq_range']
  conv_rhs => rw [show m + 2 = (m + 1) + 1 from rfl, List.range'_concat, List.map_append]
  congr 1
  have : ((m + 1 : ℕ) : ℝ) ≠ 0 := by positivity
  simp only [List.map_cons, List.map_nil, zero_add, one_mul]
  congr 1
  field_simp

/-- trapezoid weights: on `n ≥ 2` uniform nodes, `T = h·(½y₀ + y₁ + … + y_{n−2} + ½y_{n−1})`, `h = 1/(n−1)` -/
theorem C15_trapz_weights (y0 yl : ℝ) (ys : List ℝ) :
    trapz (y0 :: (ys ++ [yl])) (linspace01 (ys.length + 2))
      = (1 / ((ys.length + 1 : ℕ) : ℝ)) * (y0 / 2 + ys.sum + yl / 2) := by
  rw [C15_linspace_uniform _ (by omega)]
  have : ys.length + 2 - 1 = ys.length + 1 := by omega
  rw [this]
  exact trapz_uniform _ ys y0 yl 0

/-- Trapezoid rule against the integral for an integrand of bounded variation: if on every cell
`[a,b]` of the grid the integrand stays within `[lo a b, hi a b]` and the oscillations `hi − lo` of the cells
sum to at most `V` (for a function of total variation `V` the oscillation sum is `≤ V`; that step is the
hypothesis `hV`), then `|T − ∫₀¹ f| ≤ h·V` with `h = 1/(n−1)`: the error vanishes as the step shrinks. -/
theorem C15_trapz_bv_error (f : ℝ → ℝ) (lo hi : ℝ → ℝ → ℝ)
    (hint : ∀ a b, IntervalIntegrable f MeasureTheory.volume a b)
    (hb : ∀ a b x, a ≤ x → x ≤ b → lo a b ≤ f x ∧ f x ≤ hi a b)
    (n : ℕ) (hn : 2 ≤ n) (V : ℝ) (hV : oscSum lo hi (linspace01 n) ≤ V) :
    |trapz ((linspace01 n).map f) (linspace01 n) - ∫ x in (0:ℝ)..1, f x| ≤ (1 / ((n - 1 : ℕ) : ℝ)) * V := by
  obtain ⟨m, rfl⟩ : ∃ m, n = m + 2 := ⟨n - 2, by omega⟩
  have hm : m + 2 - 1 = m + 1 := by omega
  have hpos : (0:ℝ) < ((m + 1 : ℕ) : ℝ) := by positivity
  have hh : (0:ℝ) ≤ 1 / ((m + 1 : ℕ) : ℝ) := by positivity
  rw [C15_linspace_uniform _ hn, hm] at hV ⊢
  obtain ⟨t0, ts, heq, ht0, hlast, hp, hc⟩ := uniform_grid_facts (1 / ((m + 1 : ℕ) : ℝ)) hh (m + 1) 0
  rw [heq] at hV ⊢
  have hosc : ∀ a b, a ≤ b → lo a b ≤ hi a b := fun a b hab =>
    le_trans (hb a b a (le_refl _) hab).1 (hb a b a (le_refl _) hab).2
  have h1 := trapz_cell_error f lo hi hint hb t0 ts hp
  have h2 := cellErr_le lo hi _ hosc t0 ts hp hc
  have h0 : t0 = 0 := by rw [ht0]; simp
  have hl : (t0 :: ts).getLast (by simp) = 1 := by
    rw [hlast]; push_cast; field_simp; ring
  rw [hl] at h1
  subst h0
  have h3 : 1 / ((m + 1 : ℕ) : ℝ) * oscSum lo hi (0 :: ts) ≤ 1 / ((m + 1 : ℕ) : ℝ) * V :=
    mul_le_mul_of_nonneg_left hV hh
  linarith

/-- The variation hypothesis discharged for a monotone integrand: if `f` is antitone (or monotone) on `[0,1]`, the
oscillation sum telescopes to `|f 0 − f 1|` — the total variation — so `|T − ∫₀¹ f| ≤ h·|f 0 − f 1|` with no
further hypothesis (integrability follows from monotonicity). -/
theorem C15_trapz_monotone_error (f : ℝ → ℝ)
    (hf : AntitoneOn f (Set.Icc 0 1) ∨ MonotoneOn f (Set.Icc 0 1)) (n : ℕ) (hn : 2 ≤ n) :
    |trapz ((linspace01 n).map f) (linspace01 n) - ∫ x in (0:ℝ)..1, f x|
      ≤ (1 / ((n - 1 : ℕ) : ℝ)) * |f 0 - f 1| := by
  -- work with the clamped extension `g = f ∘ clamp01`, which is monotone on all of ℝ and agrees with `f` on `[0,1]`
  set g : ℝ → ℝ := fun x => f (clamp01 x) with hg
  have hgf : ∀ x ∈ Set.Icc (0:ℝ) 1, g x = f x := fun x hx => by simp only [hg, clamp01_of_mem hx]
  obtain ⟨m, rfl⟩ : ∃ m, n = m + 2 := ⟨n - 2, by omega⟩
  have hm : m + 2 - 1 = m + 1 := by omega
  have hh : (0:ℝ) ≤ 1 / ((m + 1 : ℕ) : ℝ) := by positivity
  obtain ⟨t0, ts, heq, ht0, hlast, hp, hc⟩ := uniform_grid_facts (1 / ((m + 1 : ℕ) : ℝ)) hh (m + 1) 0
  have h0 : t0 = 0 := by rw [ht0]; simp
  have hl : (t0 :: ts).getLast (by simp) = 1 := by rw [hlast]; push_cast; field_simp; ring
  have hlin : linspace01 (m + 2) = t0 :: ts := by rw [C15_linspace_uniform _ hn, hm]; exact heq
  -- grid points lie in [0,1]
  have hmem : ∀ t ∈ t0 :: ts, t ∈ Set.Icc (0:ℝ) 1 := by
    intro t ht
    constructor
    · rcases List.mem_cons.mp ht with rfl | ht'
      · rw [h0]
      · have := (List.pairwise_cons.mp hp).1 t ht'; rw [h0] at this; exact this
    · have := sorted_le_getLast _ hp (by simp) t ht; rw [hl] at this; exact this
  have hmap : (t0 :: ts).map f = (t0 :: ts).map g := List.map_congr_left (fun t ht => (hgf t (hmem t ht)).symm)
  have hint : ∫ x in (0:ℝ)..1, f x = ∫ x in (0:ℝ)..1, g x := by
    apply intervalIntegral.integral_congr
    intro x hx
    rw [Set.uIcc_of_le (by norm_num : (0:ℝ) ≤ 1)] at hx
    exact (hgf x hx).symm
  have hg0 : g 0 = f 0 := hgf 0 ⟨le_refl _, by norm_num⟩
  have hg1 : g 1 = f 1 := hgf 1 ⟨by norm_num, le_refl _⟩
  rw [hlin, hmap, hint, hm, ← hg0, ← hg1]
  rcases hf with hf | hf
  · have hanti : Antitone g := fun a b hab => hf (clamp01_mem a) (clamp01_mem b) (clamp01_mono hab)
    have hb : ∀ a b x, a ≤ x → x ≤ b → (fun _ b => g b) a b ≤ g x ∧ g x ≤ (fun a _ => g a) a b :=
      fun a b x h1 h2 => ⟨hanti h2, hanti h1⟩
    have hii : ∀ a b, IntervalIntegrable g MeasureTheory.volume a b := fun a b => hanti.intervalIntegrable
    have h1 := trapz_cell_error g _ _ hii hb t0 ts hp
    have h2 := cellErr_le (fun _ b => g b) (fun a _ => g a) _ (fun a b hab => hanti hab) t0 ts hp hc
    rw [oscSum_antitone g t0 ts, hl] at h2
    rw [hl] at h1
    subst h0
    have : g 0 - g 1 ≤ |g 0 - g 1| := le_abs_self _
    nlinarith
  · have hmono : Monotone g := fun a b hab => hf (clamp01_mem a) (clamp01_mem b) (clamp01_mono hab)
    have hb : ∀ a b x, a ≤ x → x ≤ b → (fun a _ => g a) a b ≤ g x ∧ g x ≤ (fun _ b => g b) a b :=
      fun a b x h1 h2 => ⟨hmono h1, hmono h2⟩
    have hii : ∀ a b, IntervalIntegrable g MeasureTheory.volume a b := fun a b => hmono.intervalIntegrable
    have h1 := trapz_cell_error g _ _ hii hb t0 ts hp
    have h2 := cellErr_le (fun a _ => g a) (fun _ b => g b) _ (fun a b hab => hmono hab) t0 ts hp hc
    rw [oscSum_monotone g t0 ts, hl] at h2
    rw [hl] at h1
    subst h0
    have : g 1 - g 0 ≤ |g 0 - g 1| := by rw [abs_sub_comm]; exact le_abs_self _
    nlinarith

/-- The same bound for the model: with `g t = ρ(r(t))·dist` the code's result is `100·T(g)`, and
`∫₀¹ g dt = ∫₀^dist ρ ds` is the column density, so `|slant_depth − 100·∫ρ ds| ≤ 100·V/(n−1)` where
`V` bounds the oscillation sum of `g` (i.e. `dist ×` the variation of the density along the chord). -/
theorem C15_slant_discretisation (M : EarthModel) (e u : EV3) (step : ℝ)
    (hD : 0 < chordDisc M.radius e u) (hd : 0 < chordDist M.radius e u)
    (hn : 2 ≤ nSteps (chordDist M.radius e u) step) (lo hi : ℝ → ℝ → ℝ)
    (hint : ∀ a b, IntervalIntegrable
      (fun t => M.density (sampleRadius e u (chordDist M.radius e u) t) * chordDist M.radius e u)
      MeasureTheory.volume a b)
    (hb : ∀ a b x, a ≤ x → x ≤ b →
      lo a b ≤ M.density (sampleRadius e u (chordDist M.radius e u) x) * chordDist M.radius e u ∧
      M.density (sampleRadius e u (chordDist M.radius e u) x) * chordDist M.radius e u ≤ hi a b)
    (V : ℝ) (hV : oscSum lo hi (linspace01 (nSteps (chordDist M.radius e u) step)) ≤ V) :
    |M.slantCore e u step
        - 100 * ∫ t in (0:ℝ)..1, M.density (sampleRadius e u (chordDist M.radius e u) t) * chordDist M.radius e u|
      ≤ 100 * ((1 / ((nSteps (chordDist M.radius e u) step - 1 : ℕ) : ℝ)) * V) := by
  have h := C15_trapz_bv_error _ lo hi hint hb _ hn V hV
  have h1 : ¬ chordDisc M.radius e u ≤ 0 := not_le.mpr hD
  have h2 : ¬ chordDist M.radius e u ≤ 0 := not_le.mpr hd
  simp only [EarthModel.slantCore, h1, h2, if_false, EarthModel.chordSamples]
  rw [← mul_sub, abs_mul]
  have : |(100:ℝ)| = 100 := abs_of_pos (by norm_num)
  rw [this]
  exact mul_le_mul_of_nonneg_left h (by norm_num)

/-- PREM density on the outermost shell `[6368 km, 6371 km)` (the 3 km the endpoints of this package live in) -/
theorem C15_prem_top_shell (r : ℝ) (h1 : 6368000 ≤ r) (h2 : r < prem.radius) : prem.density r = 102 / 100 := by
  obtain ⟨s, hs, hh, hd, _⟩ := C15_density_pos_inside r (by linarith) h2
  rw [hd]
  rw [prem_shells_explicit] at hs
  rw [prem_radius] at h2
  simp only [List.mem_cons, List.not_mem_nil, or_false] at hs
  obtain ⟨hlo, hhi⟩ := hh
  rcases hs with rfl | rfl | rfl | rfl | rfl | rfl | rfl | rfl | rfl | rfl <;> simp only at hlo hhi <;>
    first
      | (exfalso; linarith)
      | (simp [evalPoly, evalPolyFrom]; norm_num)

/-- `prem_variation`, discharged for one shell: for a chord whose interior samples all lie in the outermost PREM
shell (every chord of a near-surface, shallow-dipping neutrino), the integrand `ρ(r(t))·dist` is the step
`1.02·dist` on `[0,1)` and `0` at the exit node, hence antitone with total variation `1.02·dist`, and
`|slant_depth − 100·∫ρ ds| ≤ 100·h·1.02·dist` with `h = 1/(n−1)` — no variation hypothesis left.
(The general PREM chord crosses several shells: piecewise monotone with finitely many jumps; that case keeps the
hypothesis `hV` of `C15_trapz_bv_error` and is checked numerically by the search with the computed variation.) -/
theorem C15_prem_variation_top_shell (e u : EV3) (hu : dot3 u u = 1) (step : ℝ)
    (hD : 0 < chordDisc prem.radius e u) (hd : 0 < chordDist prem.radius e u)
    (hn : 2 ≤ nSteps (chordDist prem.radius e u) step)
    (hin : ∀ t : ℝ, 0 ≤ t → t < 1 → 6368000 ≤ sampleRadius e u (chordDist prem.radius e u) t ∧
        sampleRadius e u (chordDist prem.radius e u) t < prem.radius) :
    |prem.slantCore e u step
        - 100 * ∫ t in (0:ℝ)..1, prem.density (sampleRadius e u (chordDist prem.radius e u) t) * chordDist prem.radius e u|
      ≤ 100 * ((1 / ((nSteps (chordDist prem.radius e u) step - 1 : ℕ) : ℝ)) * (102 / 100 * chordDist prem.radius e u)) := by
  set dist := chordDist prem.radius e u with hdist
  set f : ℝ → ℝ := fun t => prem.density (sampleRadius e u dist t) * dist with hf
  have hval : ∀ t, 0 ≤ t → t < 1 → f t = 102 / 100 * dist := by
    intro t h0 h1
    simp only [hf]
    rw [C15_prem_top_shell _ (hin t h0 h1).1 (hin t h0 h1).2]
  have hone : f 1 = 0 := by
    simp only [hf]
    rw [hdist, C15_exit_node_outside e u hu hD.le]; ring
  have hanti : AntitoneOn f (Set.Icc 0 1) := by
    intro a ha b hb hab
    rcases eq_or_lt_of_le hb.2 with rfl | hb1
    · rw [hone]
      rcases eq_or_lt_of_le ha.2 with rfl | ha1
      · rw [hone]
      · rw [hval a ha.1 ha1]; exact mul_nonneg (by norm_num) hd.le
    · rw [hval b hb.1 hb1, hval a ha.1 (lt_of_le_of_lt hab hb1)]
  have h := C15_trapz_monotone_error f (Or.inl hanti) _ hn
  have habs : |102 / 100 * dist| = 102 / 100 * dist := abs_of_nonneg (mul_nonneg (by norm_num) hd.le)
  rw [hval 0 (le_refl _) (by norm_num), hone, sub_zero, habs] at h
  have h1 : ¬ chordDisc prem.radius e u ≤ 0 := not_le.mpr hD
  have h2 : ¬ chordDist prem.radius e u ≤ 0 := not_le.mpr hd
  simp only [EarthModel.slantCore, h1, h2, if_false, EarthModel.chordSamples]
  rw [← mul_sub, abs_mul, abs_of_pos (by norm_num : (0:ℝ) < 100)]
  exact mul_le_mul_of_nonneg_left h (by norm_num)

/-- Deeper chords are longer: for an endpoint strictly inside the sphere the chord length is strictly
decreasing in `dot = e·û` (more anti-parallel to the local vertical = larger dip).  For a uniform density `ρ`
the column `100·ρ·dist` therefore grows strictly with dip.
(Full statement — the layered PREM column grows with dip — is not proved; the search sweeps it.) -/
theorem C15_grows_with_dip_partial (rad : ℝ) (e u₁ u₂ : EV3) (hin : dot3 e e < rad * rad)
    (hdot : dot3 e u₁ < dot3 e u₂) (ρ : ℝ) (hρ : 0 < ρ) :
    chordDist rad e u₂ < chordDist rad e u₁ ∧
    100 * ρ * chordDist rad e u₂ < 100 * ρ * chordDist rad e u₁ := by
  have key : chordDist rad e u₂ < chordDist rad e u₁ := by
    unfold chordDist chordDisc
    simp only [Rsqrt]
    set a := dot3 e u₁
    set b := dot3 e u₂
    set c := rad * rad - dot3 e e with hc
    have hcpos : 0 < c := by rw [hc]; linarith
    have ha : 0 < a * a - dot3 e e + rad * rad := by nlinarith [mul_self_nonneg a]
    have hb : 0 < b * b - dot3 e e + rad * rad := by nlinarith [mul_self_nonneg b]
    have hsa := Real.mul_self_sqrt ha.le
    have hsb := Real.mul_self_sqrt hb.le
    have hpa := Real.sqrt_pos.mpr ha
    have hpb := Real.sqrt_pos.mpr hb
    set sa := Real.sqrt (a * a - dot3 e e + rad * rad)
    set sb := Real.sqrt (b * b - dot3 e e + rad * rad)
    -- |a| < sa, |b| < sb
    have h1 : -sa < a ∧ a < sa := by
      constructor <;> nlinarith
    have h2 : -sb < b ∧ b < sb := by
      constructor <;> nlinarith
    -- (sb - sa)(sb + sa) = (b - a)(b + a) and |a + b| < sa + sb
    have hprod : (sb - sa) * (sb + sa) = (b - a) * (b + a) := by nlinarith
    by_contra hcon
    push Not at hcon
    have h3 : b - a ≤ sb - sa := by linarith
    have h4 : 0 < b - a := by linarith
    have h5 : b + a < sb + sa := by linarith [h1.2, h2.2]
    nlinarith
  exact ⟨key, by nlinarith⟩

/-- Grows with dip, for the exact column and any profile that does not increase outwards: let `ρ ≥ 0` be antitone in
the radius.  For an endpoint strictly inside the sphere and two unit directions with `e·û₁ < e·û₂` (the first dips
deeper), at every path length `s ≥ 0` the deeper chord is at a smaller radius, hence in denser material, and it is
longer; so its column `∫₀^dist ρ(|e + s û|) ds` is at least as large.  (Integrability of the two integrands is a
hypothesis; PREM itself is *not* antitone — its shell `[6151, 6346.6] km` has density increasing outwards — so for
PREM the statement stays with the search's dip sweep; the three-layer model is antitone.) -/
theorem C15_column_grows_with_dip_antitone (ρ : ℝ → ℝ) (hρ : AntitoneOn ρ (Set.Ici 0)) (hpos : ∀ r, 0 ≤ ρ r)
    (rad : ℝ) (e u₁ u₂ : EV3) (hu₁ : dot3 u₁ u₁ = 1) (hu₂ : dot3 u₂ u₂ = 1)
    (hin : dot3 e e < rad * rad) (hdot : dot3 e u₁ < dot3 e u₂)
    (hd2 : 0 ≤ chordDist rad e u₂)
    (hint1 : IntervalIntegrable (fun s => ρ (sampleRadius e u₁ 1 s)) MeasureTheory.volume 0 (chordDist rad e u₁))
    (hint2 : IntervalIntegrable (fun s => ρ (sampleRadius e u₂ 1 s)) MeasureTheory.volume 0 (chordDist rad e u₂)) :
    ∫ s in (0:ℝ)..(chordDist rad e u₂), ρ (sampleRadius e u₂ 1 s)
      ≤ ∫ s in (0:ℝ)..(chordDist rad e u₁), ρ (sampleRadius e u₁ 1 s) := by
  have hlen := (C15_grows_with_dip_partial rad e u₁ u₂ hin hdot 1 one_pos).1
  -- pointwise: the deeper chord is at the smaller radius
  have hrad : ∀ s, 0 ≤ s → sampleRadius e u₁ 1 s ≤ sampleRadius e u₂ 1 s := by
    intro s hs
    rw [C15_sample_radius_formula e u₁ hu₁, C15_sample_radius_formula e u₂ hu₂]
    apply Real.sqrt_le_sqrt
    nlinarith
  have hpt : ∀ s, 0 ≤ s → ρ (sampleRadius e u₂ 1 s) ≤ ρ (sampleRadius e u₁ 1 s) := by
    intro s hs
    apply hρ _ _ (hrad s hs)
    · exact Real.sqrt_nonneg _
    · exact Real.sqrt_nonneg _
  have hsub : IntervalIntegrable (fun s => ρ (sampleRadius e u₁ 1 s)) MeasureTheory.volume 0 (chordDist rad e u₂) := by
    apply hint1.mono_set
    rw [Set.uIcc_of_le hd2, Set.uIcc_of_le (by linarith)]
    exact Set.Icc_subset_Icc (le_refl _) hlen.le
  have hrest : IntervalIntegrable (fun s => ρ (sampleRadius e u₁ 1 s)) MeasureTheory.volume (chordDist rad e u₂) (chordDist rad e u₁) := by
    apply hint1.mono_set
    rw [Set.uIcc_of_le hlen.le, Set.uIcc_of_le (by linarith)]
    exact Set.Icc_subset_Icc hd2 (le_refl _)
  have h1 : ∫ s in (0:ℝ)..(chordDist rad e u₂), ρ (sampleRadius e u₂ 1 s)
      ≤ ∫ s in (0:ℝ)..(chordDist rad e u₂), ρ (sampleRadius e u₁ 1 s) :=
    intervalIntegral.integral_mono_on hd2 hint2 hsub (fun s hs => hpt s hs.1)
  have h2 : 0 ≤ ∫ s in (chordDist rad e u₂)..(chordDist rad e u₁), ρ (sampleRadius e u₁ 1 s) :=
    intervalIntegral.integral_nonneg hlen.le (fun s _ => hpos _)
  have h3 := intervalIntegral.integral_add_adjacent_intervals hsub hrest
  linarith

/-! ## non-vacuity -/
/-- a constant profile is antitone and non-negative (hypotheses of `C15_column_grows_with_dip_antitone`) -/
example : AntitoneOn (fun _ : ℝ => (1.02:ℝ)) (Set.Ici 0) ∧ ∀ r : ℝ, (0:ℝ) ≤ (fun _ : ℝ => (1.02:ℝ)) r := by
  constructor
  · intro a _ b _ _; exact le_refl _
  · intro r; norm_num

/-- a vertical chord from 1 km depth: unit direction, positive discriminant and distance -/
example : dot3 (⟨0, 0, -1⟩ : EV3) ⟨0, 0, -1⟩ = 1 ∧ 0 < chordDisc 6371000 ⟨0, 0, 6370000⟩ ⟨0, 0, -1⟩ := by
  simp only [dot3, chordDisc]; norm_num
example : dot3 (⟨0, 0, 6370000⟩ : EV3) ⟨0, 0, 6370000⟩ < (6371000:ℝ) * 6371000
    ∧ dot3 (⟨0, 0, 6370000⟩ : EV3) ⟨0, 0, -1⟩ < dot3 (⟨0, 0, 6370000⟩ : EV3) ⟨1, 0, 0⟩ := by
  simp only [dot3]; norm_num
example : (0:ℝ) ≤ 5000000 ∧ (5000000:ℝ) < prem.radius := by rw [prem_radius]; norm_num
