import PyrexVerif.R.Ice
import Mathlib.Analysis.SpecialFunctions.ExpDeriv
import Mathlib.Analysis.SpecialFunctions.Log.Deriv
import Mathlib.Tactic.Linarith
import Mathlib.Tactic.Positivity
/-!
# C16 — ice models are self-consistent (index, inverse, gradient, ranges)

Theorems about the ℝ-reading `PyrexR.Ice` of `twin/Ice.body`; the Float reading of the same text is
what `Drivers/C16.lean` runs against `pyrex.ice_model`.
Hypotheses `0 < k`, `0 < a`, `lo ≤ hi` hold for all shipped exponential-profile ices (examples below).
-/
open PyrexR

/-- scalar and array evaluation agree (the array branch is the pointwise map) -/
theorem C16_index_scalar_eq_array (I : Ice) (zs : List ℝ) (i : Nat) (h : i < zs.length) :
    (I.indexArr zs)[i]'(by simpa [Ice.indexArr] using h) = I.index zs[i] := by
  simp [Ice.indexArr]

/-- outside the valid range the declared indices are returned (`None` = boundary value) -/
theorem C16_index_outside (I : Ice) (z : ℝ) (hlh : I.lo ≤ I.hi) :
    (z < I.lo → I.index z = I.indexBelow) ∧ (I.hi < z → I.index z = I.indexAbove) := by
  constructor
  · intro h; simp [Ice.index, h]
  · intro h
    have : ¬ z < I.lo := by linarith
    simp [Ice.index, this, h]

theorem C16_index_inside (I : Ice) (z : ℝ) (h1 : I.lo ≤ z) (h2 : z ≤ I.hi) :
    I.index z = I.n0 - I.k * Real.exp (I.a * z) := by
  have a1 : ¬ z < I.lo := by linarith
  have a2 : ¬ z > I.hi := by simp only [gt_iff_lt]; linarith
  simp [Ice.index, a1, a2, Ice.profile]

/-- inside the range the index strictly increases with depth (decreases upward) -/
theorem C16_index_strict_anti (I : Ice) (hk : 0 < I.k) (ha : 0 < I.a) (z₁ z₂ : ℝ)
    (h1 : I.lo ≤ z₁) (h12 : z₁ < z₂) (h2 : z₂ ≤ I.hi) : I.index z₂ < I.index z₁ := by
  rw [C16_index_inside I z₁ h1 (by linarith), C16_index_inside I z₂ (by linarith) h2]
  have : Real.exp (I.a * z₁) < Real.exp (I.a * z₂) :=
    Real.exp_lt_exp.mpr (mul_lt_mul_of_pos_left h12 ha)
  have := mul_lt_mul_of_pos_left this hk
  linarith

/-- `gradient` is the depth derivative of the index profile -/
theorem C16_gradient_hasDerivAt (I : Ice) (z : ℝ) : HasDerivAt I.profile (I.gradient z) z := by
  unfold Ice.profile Ice.gradient
  have h1 : HasDerivAt (fun z => I.a * z) I.a z := by
    simpa using (hasDerivAt_id z).const_mul I.a
  have h2 := (h1.exp).const_mul I.k
  have h3 : HasDerivAt (fun y => I.n0 - I.k * Real.exp (I.a * y))
      (0 - I.k * (Real.exp (I.a * z) * I.a)) z := (hasDerivAt_const z I.n0).sub h2
  exact h3.congr_deriv (by simp only [Rexp]; ring)

/-- `depth_with_index` inverts `index` on the valid range … -/
theorem C16_depth_of_index (I : Ice) (hk : 0 < I.k) (ha : 0 < I.a) (z : ℝ)
    (h1 : I.lo ≤ z) (h2 : z ≤ I.hi) : I.depthWithIndex (I.index z) = z := by
  have hlh : I.lo ≤ I.hi := le_trans h1 h2
  have mono : ∀ x y, I.lo ≤ x → x ≤ y → y ≤ I.hi → I.index y ≤ I.index x := by
    intro x y hx hxy hy
    rcases eq_or_lt_of_le hxy with rfl | hlt
    · exact le_refl _
    · exact le_of_lt (C16_index_strict_anti I hk ha x y hx hlt hy)
  have c1 : ¬ I.index z < I.index I.hi := not_lt.mpr (mono z I.hi h1 h2 (le_refl _))
  have c2 : ¬ I.index z > I.index I.lo := not_lt.mpr (mono I.lo z (le_refl _) h1 h2)
  unfold Ice.depthWithIndex
  simp only [c1, c2, if_false]
  rw [C16_index_inside I z h1 h2]
  have : (I.n0 - (I.n0 - I.k * Real.exp (I.a * z))) / I.k = Real.exp (I.a * z) := by
    field_simp; ring
  simp only [Rlog]
  rw [this, Real.log_exp]
  field_simp

/-- … and `index` inverts `depth_with_index` on the range of indices, which it clamps outside -/
theorem C16_index_of_depth (I : Ice) (hk : 0 < I.k) (ha : 0 < I.a) (hlh : I.lo ≤ I.hi) (n : ℝ) :
    (I.index I.hi ≤ n → n ≤ I.index I.lo → n < I.n0 → I.index (I.depthWithIndex n) = n) ∧
    (n < I.index I.hi → I.depthWithIndex n = I.hi) ∧
    (I.index I.lo < n → I.depthWithIndex n = I.lo) := by
  refine ⟨?_, ?_, ?_⟩
  · intro h1 h2 h3
    have c1 : ¬ n < I.index I.hi := not_lt.mpr h1
    have c2 : ¬ n > I.index I.lo := not_lt.mpr h2
    have hpos : 0 < (I.n0 - n) / I.k := div_pos (by linarith) hk
    set z := Real.log ((I.n0 - n) / I.k) / I.a with hz
    have hexp : Real.exp (I.a * z) = (I.n0 - n) / I.k := by
      rw [hz, mul_div_cancel₀ _ (ne_of_gt ha), Real.exp_log hpos]
    have hval : I.n0 - I.k * Real.exp (I.a * z) = n := by
      rw [hexp]; field_simp; ring
    -- z lies inside the range because the profile is monotone
    have hihi := C16_index_inside I I.hi hlh (le_refl _)
    have hilo := C16_index_inside I I.lo (le_refl _) hlh
    have hz_hi : z ≤ I.hi := by
      by_contra hcon
      rw [not_le] at hcon
      have : Real.exp (I.a * I.hi) < Real.exp (I.a * z) :=
        Real.exp_lt_exp.mpr (mul_lt_mul_of_pos_left hcon ha)
      have := mul_lt_mul_of_pos_left this hk
      rw [hihi] at h1; linarith
    have hz_lo : I.lo ≤ z := by
      by_contra hcon
      rw [not_le] at hcon
      have : Real.exp (I.a * z) < Real.exp (I.a * I.lo) :=
        Real.exp_lt_exp.mpr (mul_lt_mul_of_pos_left hcon ha)
      have := mul_lt_mul_of_pos_left this hk
      rw [hilo] at h2; linarith
    unfold Ice.depthWithIndex
    simp only [c1, c2, if_false, Rlog]
    rw [← hz, C16_index_inside I z hz_lo hz_hi, hval]
  · intro h; simp [Ice.depthWithIndex, h]
  · intro h
    have c1 : ¬ n < I.index I.hi := by
      have hmono : I.index I.hi ≤ I.index I.lo := by
        rcases eq_or_lt_of_le hlh with heq | hlt
        · rw [heq]
        · exact le_of_lt (C16_index_strict_anti I hk ha I.lo I.hi (le_refl _) hlt (le_refl _))
      exact not_lt.mpr (by linarith)
    simp [Ice.depthWithIndex, c1, h]

/-! non-vacuity: the shipped Antarctic parameters meet the hypotheses -/
private def antarctic : Ice := ⟨1.78, 0.43, 0.0132, -2850, 0, some 1, none⟩
example : 0 < antarctic.k ∧ 0 < antarctic.a ∧ antarctic.lo ≤ antarctic.hi := by
  simp only [antarctic]; norm_num
