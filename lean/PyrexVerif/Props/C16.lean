import PyrexVerif.R.Ice
import PyrexVerif.R.IceAtten
import PyrexVerif.Proofs.IceTable
import Mathlib.Tactic.NormNum
import Mathlib.Analysis.SpecialFunctions.ExpDeriv
import Mathlib.Analysis.SpecialFunctions.Log.Deriv
import Mathlib.Tactic.Linarith
import Mathlib.Tactic.Positivity
/-!
# C16 — ice models are self-consistent (index, inverse, gradient, ranges)

Theorems about the ℝ-reading `PyrexR.Ice` of `twin/Ice.body`; the Float reading of the same text is
what `Drivers/C16.lean` runs against `pyrex.ice_model`.
Hypotheses `0 < k`, `0 < a`, `lo ≤ hi` hold for all shipped exponential-profile ices (examples below).
-/
open PyrexR

/-- scalar and array evaluation agree (the array branch is the pointwise map) -/
theorem C16_index_scalar_eq_array (I : Ice) (zs : List ℝ) (i : Nat) (h : i < zs.length) :
    (I.indexArr zs)[i]'(by simpa [Ice.indexArr] using h) = I.index zs[i] := by
  simp [Ice.indexArr]

/-- outside the valid range the declared indices are returned (`None` = boundary value) -/
theorem C16_index_outside (I : Ice) (z : ℝ) (hlh : I.lo ≤ I.hi) :
    (z < I.lo → I.index z = I.indexBelow) ∧ (I.hi < z → I.index z = I.indexAbove) := by
  constructor
  · intro h; simp [Ice.index, h]
  · intro h
    have : ¬ z < I.lo := by linarith
    simp [Ice.index, this, h]

theorem C16_index_inside (I : Ice) (z : ℝ) (h1 : I.lo ≤ z) (h2 : z ≤ I.hi) :
    I.index z = I.n0 - I.k * Real.exp (I.a * z) := by
  have a1 : ¬ z < I.lo := by linarith
  have a2 : ¬ z > I.hi := by simp only [gt_iff_lt]; linarith
  simp [Ice.index, a1, a2, Ice.profile]

/-- inside the range the index strictly increases with depth (decreases upward) -/
theorem C16_index_strict_anti (I : Ice) (hk : 0 < I.k) (ha : 0 < I.a) (z₁ z₂ : ℝ)
    (h1 : I.lo ≤ z₁) (h12 : z₁ < z₂) (h2 : z₂ ≤ I.hi) : I.index z₂ < I.index z₁ := by
  rw [C16_index_inside I z₁ h1 (by linarith), C16_index_inside I z₂ (by linarith) h2]
  have : Real.exp (I.a * z₁) < Real.exp (I.a * z₂) :=
    Real.exp_lt_exp.mpr (mul_lt_mul_of_pos_left h12 ha)
  have := mul_lt_mul_of_pos_left this hk
  linarith

/-- `gradient` is the depth derivative of the index profile -/
theorem C16_gradient_hasDerivAt (I : Ice) (z : ℝ) : HasDerivAt I.profile (I.gradient z) z := by
  unfold Ice.profile Ice.gradient
  have h1 : HasDerivAt (fun z => I.a * z) I.a z := by
    simpa using (hasDerivAt_id z).const_mul I.a
  have h2 := (h1.exp).const_mul I.k
  have h3 : HasDerivAt (fun y => I.n0 - I.k * Real.exp (I.a * y))
      (0 - I.k * (Real.exp (I.a * z) * I.a)) z := (hasDerivAt_const z I.n0).sub h2
  exact h3.congr_deriv (by simp only [Rexp]; ring)

/-- `depth_with_index` inverts `index` on the valid range … -/
theorem C16_depth_of_index (I : Ice) (hk : 0 < I.k) (ha : 0 < I.a) (z : ℝ)
    (h1 : I.lo ≤ z) (h2 : z ≤ I.hi) : I.depthWithIndex (I.index z) = z := by
  have hlh : I.lo ≤ I.hi := le_trans h1 h2
  have mono : ∀ x y, I.lo ≤ x → x ≤ y → y ≤ I.hi → I.index y ≤ I.index x := by
    intro x y hx hxy hy
    rcases eq_or_lt_of_le hxy with rfl | hlt
    · exact le_refl _
    · exact le_of_lt (C16_index_strict_anti I hk ha x y hx hlt hy)
  have c1 : ¬ I.index z < I.index I.hi := not_lt.mpr (mono z I.hi h1 h2 (le_refl _))
  have c2 : ¬ I.index z > I.index I.lo := not_lt.mpr (mono I.lo z (le_refl _) h1 h2)
  unfold Ice.depthWithIndex
  simp only [c1, c2, if_false]
  rw [C16_index_inside I z h1 h2]
  have : (I.n0 - (I.n0 - I.k * Real.exp (I.a * z))) / I.k = Real.exp (I.a * z) := by
    field_simp; ring
  simp only [Rlog]
  rw [this, Real.log_exp]
  field_simp

/-- … and `index` inverts `depth_with_index` on the range of indices, which it clamps outside -/
theorem C16_index_of_depth (I : Ice) (hk : 0 < I.k) (ha : 0 < I.a) (hlh : I.lo ≤ I.hi) (n : ℝ) :
    (I.index I.hi ≤ n → n ≤ I.index I.lo → n < I.n0 → I.index (I.depthWithIndex n) = n) ∧
    (n < I.index I.hi → I.depthWithIndex n = I.hi) ∧
    (I.index I.lo < n → I.depthWithIndex n = I.lo) := by
  refine ⟨?_, ?_, ?_⟩
  · intro h1 h2 h3
    have c1 : ¬ n < I.index I.hi := not_lt.mpr h1
    have c2 : ¬ n > I.index I.lo := not_lt.mpr h2
    have hpos : 0 < (I.n0 - n) / I.k := div_pos (by linarith) hk
    set z := Real.log ((I.n0 - n) / I.k) / I.a with hz
    have hexp : Real.exp (I.a * z) = (I.n0 - n) / I.k := by
      rw [hz, mul_div_cancel₀ _ (ne_of_gt ha), Real.exp_log hpos]
    have hval : I.n0 - I.k * Real.exp (I.a * z) = n := by
      rw [hexp]; field_simp; ring
    -- z lies inside the range because the profile is monotone
    have hihi := C16_index_inside I I.hi hlh (le_refl _)
    have hilo := C16_index_inside I I.lo (le_refl _) hlh
    have hz_hi : z ≤ I.hi := by
      by_contra hcon
      rw [not_le] at hcon
      have : Real.exp (I.a * I.hi) < Real.exp (I.a * z) :=
        Real.exp_lt_exp.mpr (mul_lt_mul_of_pos_left hcon ha)
      have := mul_lt_mul_of_pos_left this hk
      rw [hihi] at h1; linarith
    have hz_lo : I.lo ≤ z := by
      by_contra hcon
      rw [not_le] at hcon
      have : Real.exp (I.a * z) < Real.exp (I.a * I.lo) :=
        Real.exp_lt_exp.mpr (mul_lt_mul_of_pos_left hcon ha)
      have := mul_lt_mul_of_pos_left this hk
      rw [hilo] at h2; linarith
    unfold Ice.depthWithIndex
    simp only [c1, c2, if_false, Rlog]
    rw [← hz, C16_index_inside I z hz_lo hz_hi, hval]
  · intro h; simp [Ice.depthWithIndex, h]
  · intro h
    have c1 : ¬ n < I.index I.hi := by
      have hmono : I.index I.hi ≤ I.index I.lo := by
        rcases eq_or_lt_of_le hlh with heq | hlt
        · rw [heq]
        · exact le_of_lt (C16_index_strict_anti I hk ha I.lo I.hi (le_refl _) hlt (le_refl _))
      exact not_lt.mpr (by linarith)
    simp [Ice.depthWithIndex, c1, h]


/-! ## attenuation lengths, uniform ice, layer dispatch (`twin/IceAtten.body`; constants and formulas
are regenerated from the source by `harness/extract/ice_consts.py` into `twin/IceFormulas.body`) -/

theorem C16_atten_antarctic_pos (z f : ℝ) : 0 < attenAntarctic z f := by
  unfold attenAntarctic ant_attenOf
  exact Real.exp_pos _

theorem C16_atten_greenland_floor (z f : ℝ) :
    grn_minAlen ≤ attenGreenland z f ∧ 0 < attenGreenland z f := by
  have h1 : (0:ℝ) < grn_minAlen := by unfold grn_minAlen; norm_num
  have : grn_minAlen ≤ attenGreenland z f := by
    unfold attenGreenland
    simp only
    split
    · exact le_refl _
    · linarith
  exact ⟨this, lt_of_lt_of_le h1 this⟩

theorem C16_atten_matrix_entry (att : ℝ → ℝ → ℝ) (zs fs : List ℝ) (i j : Nat)
    (hi : i < zs.length) (hj : j < fs.length) :
    ((attenMatrix att zs fs)[i]?.bind (·[j]?)) = some (att zs[i] fs[j]) := by
  simp [attenMatrix, hi, hj]

theorem C16_atten_row_col (att : ℝ → ℝ → ℝ) (zs fs : List ℝ) (z f : ℝ) :
    (∀ j (hj : j < fs.length), (attenRow att z fs)[j]? = some (att z fs[j])) ∧
    (∀ i (hi : i < zs.length), (attenCol att zs f)[i]? = some (att zs[i] f)) := by
  constructor
  · intro j hj; simp [attenRow, hj]
  · intro i hi; simp [attenCol, hi]

theorem C16_uniform_index (I : UIce) (z : ℝ) (hlh : I.lo ≤ I.hi) :
    (I.lo ≤ z → z ≤ I.hi → I.index z = I.n) ∧
    (z < I.lo → I.index z = I.below.getD I.n) ∧
    (I.hi < z → I.index z = I.above.getD I.n) ∧
    HasDerivAt (fun _ : ℝ => I.n) (I.gradient z) z := by
  refine ⟨?_, ?_, ?_, ?_⟩
  · intro h1 h2
    have a1 : ¬ z < I.lo := by linarith
    have a2 : ¬ z > I.hi := by simp only [gt_iff_lt]; linarith
    simp [UIce.index, a1, a2]
  · intro h; simp only [UIce.index, h, if_true]; cases I.below <;> rfl
  · intro h
    have a1 : ¬ z < I.lo := by linarith
    simp only [UIce.index, a1, if_false, gt_iff_lt, h, if_true]; cases I.above <;> rfl
  · simpa [UIce.gradient] using hasDerivAt_const z I.n

private theorem connected_tail {p : ℝ × ℝ} {r : List (ℝ × ℝ)} (h : connected (p :: r)) : connected r := by
  cases r with
  | nil => trivial
  | cons q r' => obtain ⟨lo, hi⟩ := p; obtain ⟨lo', hi'⟩ := q; exact h.2.2

private theorem connected_head_lt {lo hi : ℝ} {r : List (ℝ × ℝ)} (h : connected ((lo, hi) :: r)) : lo < hi := by
  cases r with
  | nil => exact h
  | cons q r' => obtain ⟨lo', hi'⟩ := q; exact h.1

/-- in a connected stack every later layer lies below the lower edge of an earlier one -/
private theorem connected_below {lo hi : ℝ} {r : List (ℝ × ℝ)} (h : connected ((lo, hi) :: r)) :
    ∀ p ∈ r, p.2 ≤ lo := by
  induction r generalizing lo hi with
  | nil => intro p hp; cases hp
  | cons q r' ih =>
    obtain ⟨lo', hi'⟩ := q
    intro p hp
    have h2 : hi' = lo := h.2.1
    have hc' : connected ((lo', hi') :: r') := h.2.2
    rcases List.mem_cons.mp hp with rfl | hp'
    · exact le_of_eq h2
    · have := ih hc' p hp'
      have hlt := connected_head_lt hc'
      linarith

private theorem layerAtGo_spec (ls : List (ℝ × ℝ)) (hc : connected ls) (k : Nat) (z : ℝ) (i : Nat)
    (lo hi : ℝ) (hi' : ls[i]? = some (lo, hi)) (hz : lo < z ∧ z ≤ hi) :
    layerAtGo ls k z = some (k + i) := by
  induction ls generalizing k i with
  | nil => simp at hi'
  | cons p r ih =>
    obtain ⟨lo0, hi0⟩ := p
    cases i with
    | zero =>
      simp only [List.getElem?_cons_zero, Option.some.injEq, Prod.mk.injEq] at hi'
      obtain ⟨rfl, rfl⟩ := hi'
      cases r with
      | nil => simp [layerAtGo, hz]
      | cons q r' => simp [layerAtGo, hz]
    | succ j =>
      simp only [List.getElem?_cons_succ] at hi'
      have hmem : (lo, hi) ∈ r := List.mem_of_getElem? hi'
      have hb := connected_below hc (lo, hi) hmem
      have hnot : ¬ (lo0 < z ∧ z ≤ hi0) := by
        intro hh; simp only at hb; linarith [hh.1, hz.2]
      cases r with
      | nil => simp at hi'
      | cons q r' =>
        simp only [layerAtGo, hnot, if_false]
        rw [ih (connected_tail hc) (k+1) j hi']
        congr 1; omega

/-- a layered ice dispatches every depth to the layer that contains it: in a connected stack the
layer `(lo, hi]` containing `z` is the one `layer_at_depth` returns … -/
theorem C16_layers_dispatch (ls : List (ℝ × ℝ)) (hc : connected ls) (z : ℝ) (i : Nat) (lo hi : ℝ)
    (hi' : ls[i]? = some (lo, hi)) (hz : lo < z ∧ z ≤ hi) : layerAt ls z = some i := by
  simpa [layerAt] using layerAtGo_spec ls hc 0 z i lo hi hi' hz

/-- … it is the only one (the half-open layers are pairwise disjoint) … -/
theorem C16_layers_disjoint (ls : List (ℝ × ℝ)) (hc : connected ls) (z : ℝ) (i j : Nat)
    (lo hi lo' hi' : ℝ) (h1 : ls[i]? = some (lo, hi)) (h2 : ls[j]? = some (lo', hi'))
    (hz1 : lo < z ∧ z ≤ hi) (hz2 : lo' < z ∧ z ≤ hi') : i = j := by
  have a := C16_layers_dispatch ls hc z i lo hi h1 hz1
  have b := C16_layers_dispatch ls hc z j lo' hi' h2 hz2
  rw [a] at b; exact Option.some.inj b

/-- … and the layers cover `(bottom, top]` -/
theorem C16_layers_cover (ls : List (ℝ × ℝ)) (hc : connected ls) (z top bottom : ℝ)
    (ht : ls.head?.map (·.2) = some top) (hb : ls.getLast?.map (·.1) = some bottom)
    (hz : bottom < z ∧ z ≤ top) : ∃ (i : Nat) (lo hi : ℝ), ls[i]? = some (lo, hi) ∧ lo < z ∧ z ≤ hi := by
  induction ls generalizing top with
  | nil => simp at ht
  | cons p r ih =>
    obtain ⟨lo0, hi0⟩ := p
    simp only [List.head?_cons, Option.map_some, Option.some.injEq] at ht
    subst ht
    by_cases h0 : lo0 < z
    · exact ⟨0, lo0, hi0, by simp, h0, hz.2⟩
    · cases r with
      | nil =>
        simp only [List.getLast?_singleton, Option.map_some, Option.some.injEq] at hb
        subst hb; exact absurd hz.1 h0
      | cons q r' =>
        obtain ⟨lo1, hi1⟩ := q
        have hconn : hi1 = lo0 := hc.2.1
        have hb' : ((lo1, hi1) :: r').getLast?.map (·.1) = some bottom := by
          simpa [List.getLast?_cons_cons] using hb
        obtain ⟨i, lo, hi, hi', hz'⟩ :=
          ih (connected_tail hc) hi1 (by simp) hb' ⟨hz.1, by rw [hconn]; exact not_lt.mp h0⟩
        exact ⟨i+1, lo, hi, by simpa using hi', hz'⟩

private theorem layerAtGo_none (ls : List (ℝ × ℝ)) (k : Nat) (z : ℝ)
    (h : ∀ p ∈ ls, ¬ (p.1 < z ∧ z ≤ p.2)) (hb : ∀ p, ls.getLast? = some p → p.1 ≠ z) :
    layerAtGo ls k z = none := by
  induction ls generalizing k with
  | nil => rfl
  | cons p r ih =>
    obtain ⟨lo, hi⟩ := p
    have h0 : ¬ (lo < z ∧ z ≤ hi) := h (lo, hi) (by simp)
    cases r with
    | nil =>
      have h1 : ¬ lo = z := hb (lo, hi) (by simp)
      simp [layerAtGo, h0, h1]
    | cons q r' =>
      simp only [layerAtGo, h0, if_false]
      exact ih (k+1) (fun p hp => h p (List.mem_cons_of_mem _ hp))
        (fun p hp => hb p (by simpa [List.getLast?_cons_cons] using hp))

/-- the error branch: a depth that NO layer contains (above the top, below the bottom, or inside a gap
of a disconnected stack) and that is not the bottom edge of the lowest layer has no layer — this is where
`layer_at_depth` raises `ValueError("No layer at depth …")`; no hypothesis on the stack at all -/
theorem C16_layers_no_layer (ls : List (ℝ × ℝ)) (z : ℝ)
    (h : ∀ p ∈ ls, ¬ (p.1 < z ∧ z ≤ p.2)) (hb : ∀ p, ls.getLast? = some p → p.1 ≠ z) :
    layerAt ls z = none := by
  simpa [layerAt] using layerAtGo_none ls 0 z h hb

private theorem connected_last_lt : ∀ {ls : List (ℝ × ℝ)} {lo hi : ℝ}, connected ls →
    ls.getLast? = some (lo, hi) → lo < hi
  | [], _, _, _, hl => by simp at hl
  | [(a, b)], lo, hi, hc, hl => by
      simp only [List.getLast?_singleton, Option.some.injEq, Prod.mk.injEq] at hl
      obtain ⟨rfl, rfl⟩ := hl; exact hc
  | p :: q :: r, lo, hi, hc, hl =>
      connected_last_lt (connected_tail hc) (by simpa [List.getLast?_cons_cons] using hl)

private theorem layerAtGo_bottom (ls : List (ℝ × ℝ)) (hc : connected ls) (k : Nat) (lo hi : ℝ)
    (hl : ls.getLast? = some (lo, hi)) : layerAtGo ls k lo = some (k + (ls.length - 1)) := by
  induction ls generalizing k with
  | nil => simp at hl
  | cons p r ih =>
    obtain ⟨lo0, hi0⟩ := p
    cases r with
    | nil =>
      simp only [List.getLast?_singleton, Option.some.injEq, Prod.mk.injEq] at hl
      obtain ⟨rfl, rfl⟩ := hl
      simp [layerAtGo]
    | cons q r' =>
      have hl' : (q :: r').getLast? = some (lo, hi) := by simpa [List.getLast?_cons_cons] using hl
      have hmem : (lo, hi) ∈ q :: r' := List.mem_of_getLast? hl'
      have hb := connected_below hc (lo, hi) hmem
      have hlt : lo < hi := connected_last_lt (connected_tail hc) hl'
      have hnot : ¬ (lo0 < lo ∧ lo ≤ hi0) := by
        intro hh; simp only at hb; linarith [hh.1]
      simp only [layerAtGo, hnot, if_false]
      rw [ih (connected_tail hc) (k+1) hl']
      simp only [List.length_cons]; congr 1; omega

/-- the one closed edge: the bottom of the lowest layer belongs to the lowest layer -/
theorem C16_layers_bottom_edge (ls : List (ℝ × ℝ)) (hc : connected ls) (lo hi : ℝ)
    (hl : ls.getLast? = some (lo, hi)) : layerAt ls lo = some (ls.length - 1) := by
  simpa [layerAt] using layerAtGo_bottom ls hc 0 lo hi hl

example : layerAt [((-100 : ℝ), 0), (-300, -150)] (-120) = none :=       -- a gap
  C16_layers_no_layer _ _ (by intro p hp; simp at hp; rcases hp with rfl | rfl <;> norm_num)
    (by intro p hp; simp at hp; subst hp; norm_num)

private theorem arasim_good : IceTable.goodTable ara_depths ara_lengths := by
  norm_num [IceTable.goodTable, ara_depths, ara_lengths]

private theorem arasim_bound : (100 : ℝ) < IceTable.lastBound ara_depths ara_lengths 2850 := by
  norm_num [IceTable.lastBound, ara_depths, ara_lengths, interpSeg]

private theorem arasim_last : IceTable.lastKnot ara_depths ≤ 2850 := by
  norm_num [IceTable.lastKnot, ara_depths]

/-- the AraSim attenuation table (interpolated, linearly extrapolated at both ends) is positive —
indeed above 100 m — for every depth of the valid range `[-2850 m, 0]`; re-proved from the extracted
table whenever it changes -/
theorem C16_atten_arasim_pos (z f : ℝ) (hz : (-2850 : ℝ) ≤ z) : 100 < attenArasim z f := by
  unfold attenArasim
  have h := IceTable.interp_ge_lastBound ara_depths ara_lengths 2850 (-z) arasim_good
    (by simp [ara_depths]) arasim_last (by linarith)
  linarith [arasim_bound]

private theorem arasim_bound0 : (0 : ℝ) < IceTable.lastBound ara_depths ara_lengths 3171 := by
  norm_num [IceTable.lastBound, ara_depths, ara_lengths, interpSeg]

private theorem arasim_last0 : IceTable.lastKnot ara_depths ≤ 3171 := by
  norm_num [IceTable.lastKnot, ara_depths]

/-- … and it stays positive for another 321 m below the valid range: for every depth `z ≥ −3171 m` -/
theorem C16_atten_arasim_pos_extended (z f : ℝ) (hz : (-3171 : ℝ) ≤ z) : 0 < attenArasim z f := by
  unfold attenArasim
  have h := IceTable.interp_ge_lastBound ara_depths ara_lengths 3171 (-z) arasim_good
    (by simp [ara_depths]) arasim_last0 (by linarith)
  linarith [arasim_bound0]

/-- The positivity clause is FALSE of the AraSim model far below its range (known finding K20): the
table is extrapolated linearly (`fill_value="extrapolate"`), the last segment has negative slope, and
for every depth `z ≤ −3172 m` (322 m below the valid range) the attenuation "length" is negative.
Together with `C16_atten_arasim_pos_extended` this locates the sign change between −3172 m and
−3171 m; the implementation returns the same values (−9.39 m at −3200 m). -/
theorem C16_atten_arasim_negative_far_below_range (z f : ℝ) (hz : z ≤ (-3172 : ℝ)) :
    attenArasim z f < 0 := by
  unfold attenArasim
  have hk : IceTable.lastKnot ara_depths ≤ -z := by
    have : IceTable.lastKnot ara_depths ≤ 3171 := arasim_last0
    linarith
  rw [IceTable.interp_eq_lastBound ara_depths ara_lengths (-z) arasim_good (by simp [ara_depths]) hk]
  have hx : (3172 : ℝ) ≤ -z := by linarith
  norm_num [IceTable.lastBound, ara_depths, ara_lengths, interpSeg]
  nlinarith

example : attenArasim (-3200) 3e8 < 0 := C16_atten_arasim_negative_far_below_range _ _ (by norm_num)

/-! non-vacuity: the shipped Antarctic parameters meet the hypotheses -/
private def antarctic : Ice := ⟨1.78, 0.43, 0.0132, -2850, 0, some 1, none⟩
example : 0 < antarctic.k ∧ 0 < antarctic.a ∧ antarctic.lo ≤ antarctic.hi := by
  simp only [antarctic]; norm_num

example : antarcticIce.lo = -2850 ∧ 0 < antarcticIce.k ∧ 0 < antarcticIce.a := by
  simp only [antarcticIce, ant_lo, ant_k, ant_a]; norm_num
example : 0 < greenlandIce.k ∧ 0 < greenlandIce.a ∧ greenlandIce.lo ≤ greenlandIce.hi := by
  simp only [greenlandIce, grn_lo, grn_hi, grn_k, grn_a]; norm_num
example : connected [((-100 : ℝ), 0), (-300, -100), (-2850, -300)] := by
  simp only [connected]; norm_num
example : layerAt [((-100 : ℝ), 0), (-300, -100), (-2850, -300)] (-100) = some 1 := by
  simp only [layerAt, layerAtGo]; norm_num
