import PyrexVerif.Proofs.Noise
import PyrexVerif.Proofs.NoiseInterp
import PyrexVerif.Proofs.NoiseOrtho
import PyrexVerif.Proofs.NoisePhase
import PyrexVerif.Proofs.NoiseRayleigh
import PyrexVerif.Proofs.NoiseCollision
import PyrexVerif.Proofs.NoisePeriodIff
import PyrexVerif.Proofs.NoiseHermitian
import PyrexVerif.Proofs.NoiseOrthoCont
/-!
# C17 — thermal noise: band-limited, requested RMS, reproducible in absolute time

Theorems about the ℝ-reading `PyrexR` of `twin/Noise.body`; the Float reading of the same text is
what `Drivers/C17.lean` runs against `pyrex.signals.FullThermalNoise` / `FFTThermalNoise`.
`FFTNoise.WellFormed` (the published frequencies are the in-band `rfftfreq` bins, one amplitude
and one phase each) is what the constructor establishes (`C17_mkFFT_wellFormed`).
-/
open PyrexR PyrexR.Nz

/-! ## the waveform of `FullThermalNoise` is the cosine sum of its basis; frequencies in band -/

/-- `f(t) = rms·√(2/N)·Σ_k A_k·cos(2π f_k t + φ_k)` -/
theorem C17_full_is_cos_sum (B : NoiseBasis) (ha : B.amps.length = B.freqs.length)
    (hp : B.phases.length = B.freqs.length) (t : ℝ) :
    fullAt B t = B.rms * Real.sqrt (2 / (B.freqs.length : ℝ))
      * ∑ k ∈ Finset.range B.freqs.length,
          B.amps.getD k 0 * Real.cos (2 * Real.pi * B.freqs.getD k 0 * t + B.phases.getD k 0) := by
  unfold fullAt basisWave cosSum
  rw [nsum_cosTerms 1 t _ _ _ ha hp]
  simp only [one_mul, Rsqrt, RofNat]
  ring

/-- every published frequency lies inside the requested band (both classes) -/
theorem C17_freqs_in_band :
    (∀ (tF tL fmin fmax : ℝ) (spec : AmpSpec) (rv tp rs : Option ℝ) (uq : ℝ) (tape : List ℝ)
        (B : NoiseBasis), mkFull tF tL fmin fmax spec rv tp rs uq tape = some B →
        ∀ f ∈ B.freqs, fmin ≤ f ∧ f < fmax) ∧
    (∀ (n : Nat) (t0 t1 tL fmin fmax : ℝ) (spec : AmpSpec) (rv tp rs : Option ℝ) (uq : ℝ)
        (tape : List ℝ) (N : FFTNoise), mkFFT n t0 t1 tL fmin fmax spec rv tp rs uq tape = some N →
        ∀ f ∈ N.basis.freqs, fmin ≤ f ∧ f ≤ fmax) := by
  constructor
  · intro tF tL fmin fmax spec rv tp rs uq tape B h f hf
    obtain ⟨hband, r, _, rfl⟩ := mkFull_eq_some _ _ _ _ _ _ _ _ _ _ _ h
    simp only [linspaceOpen, List.mem_map, List.mem_range, RofNat] at hf
    obtain ⟨k, hk, rfl⟩ := hf
    have hΔ : 0 < fmax - fmin := by linarith [not_le.mp hband]
    set n := fullNFreqs tF tL fmin fmax uq
    have hn : (0 : ℝ) < n := by exact_mod_cast (show 0 < n by omega)
    have hkn : (k : ℝ) < n := by exact_mod_cast hk
    have hstep : 0 < (fmax - fmin) / n := div_pos hΔ hn
    have h1 : 0 ≤ (k : ℝ) * ((fmax - fmin) / n) := mul_nonneg (Nat.cast_nonneg k) hstep.le
    have h2 : (k : ℝ) * ((fmax - fmin) / n) < n * ((fmax - fmin) / n) :=
      mul_lt_mul_of_pos_right hkn hstep
    have h3 : (n : ℝ) * ((fmax - fmin) / n) = fmax - fmin := by field_simp
    constructor <;> linarith
  · intro n t0 t1 tL fmin fmax spec rv tp rs uq tape N h f hf
    obtain ⟨_, r, _, rfl⟩ := mkFFT_eq_some _ _ _ _ _ _ _ _ _ _ _ _ _ h
    exact selectMask_mem_band fmin fmax _ f hf

/-! ## FFTThermalNoise: the grid values are the cosine sum, except at DC / Nyquist -/

/-- the constructor publishes exactly the in-band bins with one amplitude and phase each (tapes
long enough, as `numpy.random` guarantees by returning `size` draws) -/
theorem C17_mkFFT_wellFormed (n : Nat) (t0 t1 tL fmin fmax : ℝ) (spec : AmpSpec) (rv tp rs : Option ℝ)
    (uq : ℝ) (tape : List ℝ) (N : FFTNoise)
    (h : mkFFT n t0 t1 tL fmin fmax spec rv tp rs uq tape = some N)
    (hamp : ∀ xs, spec = AmpSpec.tape xs → N.basis.freqs.length ≤ xs.length)
    (htape : N.basis.freqs.length ≤ tape.length) : N.WellFormed := by
  obtain ⟨_, r, _, rfl⟩ := mkFFT_eq_some _ _ _ _ _ _ _ _ _ _ _ _ _ h
  refine ⟨rfl, ?_, ?_⟩
  · simp only [fftObject, dcZero, List.length_zipWith]
    cases spec with
    | const a => simp [AmpSpec.eval]
    | affine c0 c1 => simp [AmpSpec.eval]
    | tape xs =>
      have := hamp xs rfl
      simp only [fftObject] at this
      simp [AmpSpec.eval, List.length_take, this]
  · simp only [fftObject] at htape
    simp [fftObject, phasesOf, List.length_take, htape]

/-- at the grid times `t_j = t_0 + j·dt` the FFT noise equals
`rms·√(2/N)·Σ_k A_k·cos(2π f_k (t_j − t_0) − φ_k)` when every in-band bin lies strictly between DC
and Nyquist -/
theorem C17_irfft_is_cos_sum (N : FFTNoise) (hwf : N.WellFormed) (hn : 0 < N.nAll) (hdt : N.dt ≠ 0)
    (hint : ∀ k ∈ bandIdxFrom 0 N.mask, 0 < k ∧ 2 * k ≠ N.nAll) (j : Nat) :
    N.gridValue j * N.basis.rms = basisWave (-1) N.basis ((j : ℝ) * N.dt) := by
  have hnR : (N.nAll : ℝ) ≠ 0 := by exact_mod_cast hn.ne'
  rw [N.gridValue_expansion hwf hn, bandTerms_interior N.nAll j N.dt hnR hdt _ _ _ hint,
    nsum_map_mul, ← hwf.freqs_map]
  unfold basisWave cosSum
  simp only [Rsqrt, RofNat]
  rw [← two_sqrt_half]
  ring

/-- the same with the DC bin in the band (bands touching 0): its amplitude is forced to zero by the
constructor (`dcZero`), so bin 0 contributes nothing to either side and the grid values are still the
cosine sum of the published basis — the hypothesis `0 < k` of `C17_irfft_is_cos_sum` excludes nothing
that behaves differently -/
theorem C17_irfft_is_cos_sum_dc (N : FFTNoise) (hwf : N.WellFormed) (hn : 0 < N.nAll) (hdt : N.dt ≠ 0)
    (ks : List Nat) (as ps : List ℝ) (p : ℝ)
    (hidx : bandIdxFrom 0 N.mask = 0 :: ks) (hks : ∀ k ∈ ks, 0 < k ∧ 2 * k ≠ N.nAll)
    (hamps : N.basis.amps = 0 :: as) (hphases : N.basis.phases = p :: ps) (j : Nat) :
    N.gridValue j * N.basis.rms = basisWave (-1) N.basis ((j : ℝ) * N.dt) := by
  have hnR : (N.nAll : ℝ) ≠ 0 := by exact_mod_cast hn.ne'
  rw [N.gridValue_expansion hwf hn, hidx, hamps, hphases]
  unfold basisWave cosSum
  rw [hwf.freqs_map, hidx, hamps, hphases]
  simp only [bandTerms, List.map_cons, cosTerms, nsum_cons, zero_mul, mul_zero, zero_add]
  rw [bandTerms_interior N.nAll j N.dt hnR hdt ks as ps hks, nsum_map_mul]
  simp only [Rsqrt, RofNat, List.length_cons, List.length_map]
  rw [← two_sqrt_half]
  ring

/-- known finding K4: for an even grid length `n = 2m` whose band contains the Nyquist bin `m`
(on top of interior bins), `irfft` keeps that bin at weight 1 instead of 2: the grid values fall
short of the cosine sum of the published basis by `rms·√(2/N)·½·A·cos φ·(−1)^j` -/
theorem C17_nyquist_bin_half_weight (N : FFTNoise) (hwf : N.WellFormed) (m : Nat) (hm : 0 < m)
    (hn : N.nAll = 2 * m) (hdt : N.dt ≠ 0) (ks : List Nat) (as ps : List ℝ) (a p : ℝ)
    (hidx : bandIdxFrom 0 N.mask = ks ++ [m]) (hks : ∀ k ∈ ks, 0 < k ∧ 2 * k ≠ N.nAll)
    (hamps : N.basis.amps = as ++ [a]) (hphases : N.basis.phases = ps ++ [p])
    (hal : as.length = ks.length) (hpl : ps.length = ks.length) (j : Nat) :
    irfftWeight N.nAll m = 1 ∧
    N.gridValue j * N.basis.rms
      = basisWave (-1) N.basis ((j : ℝ) * N.dt)
        - N.basis.rms * Real.sqrt (2 / (N.basis.freqs.length : ℝ)) * (1 / 2 * a * Real.cos p * (-1) ^ j) := by
  have hn0 : 0 < N.nAll := by omega
  have hnR : (N.nAll : ℝ) ≠ 0 := by exact_mod_cast hn0.ne'
  have hw : irfftWeight N.nAll m = 1 := by
    unfold irfftWeight; simp [hn]
  refine ⟨hw, ?_⟩
  have htrig : ∀ x : ℝ, x = Real.pi * j → Real.cos (x - p) = Real.cos p * (-1) ^ j := by
    intro x hx
    rw [hx, Real.cos_sub, mul_comm Real.pi, Real.cos_nat_mul_pi, Real.sin_nat_mul_pi]
    ring
  have hmR : (m : ℝ) ≠ 0 := by exact_mod_cast hm.ne'
  rw [N.gridValue_expansion hwf hn0, hidx, hamps, hphases, bandTerms_append _ _ _ _ _ _ _ _ hal hpl,
    nsum_append_singleton, hw, bandTerms_interior N.nAll j N.dt hnR hdt ks as ps hks, nsum_map_mul]
  unfold basisWave cosSum
  rw [hwf.freqs_map, hidx, hamps, hphases, List.map_append, List.map_singleton,
    cosTerms_append _ _ _ _ _ _ _ _ (by simpa using hal) (by simpa using hpl), nsum_append_singleton]
  have e1 : Real.cos (2 * Real.pi * ((j * m : Nat) : ℝ) / (N.nAll : ℝ) - p) = Real.cos p * (-1) ^ j := by
    apply htrig
    rw [hn]; push_cast; field_simp
  have e2 : Real.cos (2 * Real.pi * binFreq N.nAll N.dt m * ((j : ℝ) * N.dt) + -1 * p)
      = Real.cos p * (-1) ^ j := by
    rw [show 2 * Real.pi * binFreq N.nAll N.dt m * ((j : ℝ) * N.dt) + -1 * p
        = 2 * Real.pi * binFreq N.nAll N.dt m * ((j : ℝ) * N.dt) - p by ring]
    apply htrig
    unfold binFreq
    rw [hn]; push_cast; field_simp
  rw [e1, e2]
  simp only [Rsqrt, RofNat, List.length_map, List.length_append, List.length_singleton]
  rw [← two_sqrt_half]
  push_cast
  ring

/-! ## the periodic interpolation (repair F9) -/

/-- a regular time grid gives `length = (n_all − 1)·dt`, so the period in the source is `n_all·dt` -/
theorem C17_length_regular (N : FFTNoise) (nT : Nat) (hgrid : N.stop - N.start = ((nT : ℝ) - 1) * N.dt)
    (hall : N.nAll = N.unique * nT) :
    N.length = ((N.nAll : ℝ) - 1) * N.dt ∧ N.period = (N.nAll : ℝ) * N.dt := by
  have h1 : N.length = ((N.nAll : ℝ) - 1) * N.dt := by
    unfold FFTNoise.length
    rw [hgrid, hall]; simp only [RofNat]; push_cast; ring
  exact ⟨h1, by unfold FFTNoise.period; rw [h1]; ring⟩

/-- with the period `n·dt` (the source's `length + dt`) the interpolation is consistent at every
grid time of every period: at `t_0 + i·dt`, any integer `i`, it returns grid value `i mod n` -/
theorem C17_fft_period (N : FFTNoise) (hn : 0 < N.nAll) (hdt : 0 < N.dt)
    (hlen : N.length = ((N.nAll : ℝ) - 1) * N.dt) (hN : N.basis.freqs.length ≠ 0) (i : ℤ) :
    N.at (N.start + (i : ℝ) * N.dt) = N.gridValue (i % (N.nAll : ℤ)).toNat * N.basis.rms := by
  have hP : N.period = (N.nAll : ℝ) * N.dt := by unfold FFTNoise.period; rw [hlen]; ring
  unfold FFTNoise.at FFTNoise.atWithPeriod
  simp only [hN, if_false]
  unfold FFTNoise.fftTimes
  rw [hP, hlen, interp_regular_grid N.start N.dt hdt N.nAll hn N.gridValues
    (by simp [FFTNoise.gridValues]) i]
  have hlt : (i % (N.nAll : ℤ)).toNat < N.nAll := by
    have := Int.emod_lt_of_pos i (show (0 : ℤ) < N.nAll by omega)
    have := Int.emod_nonneg i (show (N.nAll : ℤ) ≠ 0 by omega)
    omega
  simp [FFTNoise.gridValues, List.getD_eq_getElem?_getD, hlt]

/-- with the unrepaired period `length = (n−1)·dt` the first and the last knot collide mod the
period and sample 0 returns the LAST grid value (any `n ≥ 2`): the interpolation is then not
consistent with the grid unless those two grid values happen to coincide.  Together with
`C17_fft_period`: of the two candidate periods, `n·dt` is consistent and `(n−1)·dt` is not. -/
theorem C17_fft_period_unrepaired_witness (N : FFTNoise) (hn : 2 ≤ N.nAll) (hdt : 0 < N.dt)
    (hlen : N.length = ((N.nAll : ℝ) - 1) * N.dt) (hN : N.basis.freqs.length ≠ 0) :
    N.atWithPeriod N.length N.start = N.gridValue (N.nAll - 1) * N.basis.rms := by
  unfold FFTNoise.atWithPeriod
  simp only [hN, if_false]
  unfold FFTNoise.fftTimes
  rw [hlen, interp_collision_general N.start N.dt hdt N.nAll hn N.gridValues
    (by simp [FFTNoise.gridValues])]
  have hlt : N.nAll - 1 < N.nAll := by omega
  simp [FFTNoise.gridValues, List.getD_eq_getElem?_getD, hlt]

/-- exactly which periods are consistent with the grid (`GridConsistent`: for every data list and
every integer `i`, the interpolant at `t_0 + i·dt` is grid value `i mod n`): those with
`n·dt = q·P` for a positive integer `q` coprime to `n`.  Failure witnesses for every other `P > 0`
are explicit: with the unit impulse at sample 0 as data, sample `n` does not read 1 unless `n·dt`
is a whole number `q` of periods, and if `q` shares a factor `d` with `n`, samples 0 and `n/d`
collide mod `P` and cannot read 1 and 0. -/
theorem C17_fft_period_iff (P t0 dt : ℝ) (hP : 0 < P) (hdt : 0 < dt) (n : Nat) (hn : 2 ≤ n) :
    GridConsistent P t0 dt n ↔ ∃ q : Nat, 0 < q ∧ Nat.Coprime q n ∧ (n : ℝ) * dt = (q : ℝ) * P :=
  period_iff P t0 dt hP hdt n hn

/-- among the periods that do not fold the generated trace onto itself (`P ≥ (n−1)·dt`, its span)
the interpolation is consistent at every grid time of every period **iff** `P = n·dt` — the value
the repaired source uses (`length + dt`); the unrepaired `length = (n−1)·dt` is not -/
theorem C17_fft_period_unique (P t0 dt : ℝ) (hP : 0 < P) (hdt : 0 < dt) (n : Nat) (hn : 2 ≤ n)
    (hspan : ((n : ℝ) - 1) * dt ≤ P) :
    GridConsistent P t0 dt n ↔ P = (n : ℝ) * dt :=
  period_unique P t0 dt hP hdt n hn hspan

/-- `irfft` as modelled (one-sided weighted form) is the real part of the inverse DFT of the
Hermitian completion of the one-sided spectrum — the specification of `scipy.fft.irfft` -/
theorem C17_irfft_is_hermitian_idft (n : Nat) (hn : 0 < n) (re im : List ℝ)
    (hre : re.length = n / 2 + 1) (him : im.length = n / 2 + 1) (j : Nat) :
    irfftAt n re im j = hermitianIDFT n re im j :=
  irfftAt_eq_hermitianIDFT n hn re im hre him j

/-! ## normalisation -/

/-- unit amplitudes on in-band bins strictly between DC and Nyquist: the mean square over one
period of the grid is `rms²` -/
theorem C17_unit_amp_rms (N : FFTNoise) (hwf : N.WellFormed) (hn : 0 < N.nAll)
    (hint : ∀ k ∈ bandIdxFrom 0 N.mask, 0 < k ∧ 2 * k ≠ N.nAll)
    (hunit : ∀ i, N.basis.amps.getD i 0 = 1 ∨ N.basis.freqs.length ≤ i)
    (hN : 0 < N.basis.freqs.length) :
    (1 / (N.nAll : ℝ)) * ∑ j ∈ Finset.range N.nAll, (N.gridValue j * N.basis.rms) ^ 2
      = N.basis.rms ^ 2 := by
  set K := bandIdxFrom 0 N.mask with hK
  have hKlen : K.length = N.basis.freqs.length := by
    rw [hwf.freqs_map, List.length_map]
  have hal : N.basis.amps.length = K.length := by rw [hwf.amps_len, hKlen]
  have hpl : N.basis.phases.length = K.length := by rw [hwf.phases_len, hKlen]
  -- the index family on `Fin L`
  let L := K.length
  let k : Fin L → Nat := fun i => K.getD i 0
  have hkmem : ∀ i : Fin L, k i ∈ K := by
    intro i
    have : K.getD i 0 = K[i.1] := getD_of_lt _ _ _ i.2
    show K.getD i 0 ∈ K
    rw [this]; exact List.getElem_mem _
  have hk : ∀ i : Fin L, 0 < k i ∧ 2 * k i < N.nAll := by
    intro i
    have h1 := hint (k i) (hkmem i)
    have h2 := (bandIdxFrom_mem N.mask 0 (k i) (hkmem i)).2.1
    rw [N.mask_length] at h2
    refine ⟨h1.1, ?_⟩
    have := h1.2
    omega
  have hinj : Function.Injective k := by
    intro i i' h
    have hnd : K.Nodup := (bandIdxFrom_sorted N.mask 0).imp (fun {a b} h => ne_of_lt h)
    have e1 : K.getD i 0 = K[i.1] := getD_of_lt _ _ _ i.2
    have e2 : K.getD i' 0 = K[i'.1] := getD_of_lt _ _ _ i'.2
    have : K[i.1] = K[i'.1] := by rw [← e1, ← e2]; exact h
    exact Fin.ext ((List.Nodup.getElem_inj_iff hnd).mp this)
  have hgv : ∀ j : Nat, N.gridValue j * N.basis.rms
      = N.basis.rms * Real.sqrt (2 / (Fintype.card (Fin L) : ℝ))
        * ∑ i : Fin L, Real.cos (2 * Real.pi * ((j * k i : Nat) : ℝ) / (N.nAll : ℝ)
            - N.basis.phases.getD i 0) := by
    intro j
    rw [N.gridValue_expansion hwf hn, nsum_bandTerms _ _ _ _ _ hal hpl,
      Finset.sum_range (fun i => irfftWeight N.nAll (K.getD i 0)
        * (N.basis.amps.getD i 0 * Real.cos (2 * Real.pi * ((j * K.getD i 0 : Nat) : ℝ) / (N.nAll : ℝ)
            - N.basis.phases.getD i 0)))]
    have hterm : ∀ i : Fin L, irfftWeight N.nAll (K.getD i 0)
        * (N.basis.amps.getD i 0 * Real.cos (2 * Real.pi * ((j * K.getD i 0 : Nat) : ℝ) / (N.nAll : ℝ)
            - N.basis.phases.getD i 0))
        = 2 * Real.cos (2 * Real.pi * ((j * k i : Nat) : ℝ) / (N.nAll : ℝ) - N.basis.phases.getD i 0) := by
      intro i
      have hw : irfftWeight N.nAll (K.getD i 0) = 2 := by
        have := hk i
        unfold irfftWeight
        have h' : ¬ (K.getD i 0 = 0 ∨ 2 * K.getD i 0 = N.nAll) := by
          show ¬ (k i = 0 ∨ 2 * k i = N.nAll); omega
        rw [if_neg h']
      have ha : N.basis.amps.getD i 0 = 1 := by
        rcases hunit i with h | h
        · exact h
        · have := i.2; omega
      rw [hw, ha, one_mul]
    rw [Finset.sum_congr rfl (fun i _ => hterm i), ← Finset.mul_sum, Fintype.card_fin,
      show (L : ℝ) = (N.basis.freqs.length : ℝ) by rw [← hKlen], ← two_sqrt_half]
    ring
  rw [Finset.sum_congr rfl (fun j _ => by rw [hgv j])]
  exact PyrexNoise.mean_square_unit N.nAll k hinj hk _ N.basis.rms (by rw [Fintype.card_fin]; omega)

/-- `FullThermalNoise` with unit amplitudes on distinct positive harmonics of `1/T`: the mean
square over one period `T` (continuous time) is `rms²` -/
theorem C17_unit_amp_rms_full (B : NoiseBasis) (T : ℝ) (hT : 0 < T) (ks : List Nat) (hnd : ks.Nodup)
    (hpos : ∀ k ∈ ks, 0 < k) (hfreqs : B.freqs = ks.map (fun (k : Nat) => (k : ℝ) / T))
    (ha : B.amps.length = B.freqs.length) (hp : B.phases.length = B.freqs.length)
    (hunit : ∀ a ∈ B.amps, a = 1) (hN : 0 < B.freqs.length) :
    (1 / T) * ∫ t in (0 : ℝ)..T, (fullAt B t) ^ 2 = B.rms ^ 2 := by
  have hL : B.freqs.length = ks.length := by rw [hfreqs, List.length_map]
  let L := ks.length
  let k : Fin L → Nat := fun i => ks.getD i 0
  have hkget : ∀ i : Fin L, k i = ks[i.1] := fun i => getD_of_lt _ _ _ i.2
  have hinj : Function.Injective k := by
    intro i i' h
    rw [hkget, hkget] at h
    exact Fin.ext ((List.Nodup.getElem_inj_iff hnd).mp h)
  have hk : ∀ i : Fin L, 0 < k i := by
    intro i; rw [hkget]; exact hpos _ (List.getElem_mem _)
  have hfun : ∀ t : ℝ, fullAt B t
      = B.rms * Real.sqrt (2 / (Fintype.card (Fin L) : ℝ))
        * ∑ i : Fin L, Real.cos (2 * Real.pi * ((k i : ℝ) / T) * t + B.phases.getD i 0) := by
    intro t
    rw [C17_full_is_cos_sum B ha hp t, hL,
      Finset.sum_range (fun i => B.amps.getD i 0
        * Real.cos (2 * Real.pi * B.freqs.getD i 0 * t + B.phases.getD i 0)), Fintype.card_fin]
    congr 1
    apply Finset.sum_congr rfl
    intro i _
    have hai : B.amps.getD i 0 = 1 := by
      have hi : i.1 < B.amps.length := by rw [ha, hL]; exact i.2
      rw [getD_of_lt _ _ _ hi]
      exact hunit _ (List.getElem_mem _)
    have hfi : B.freqs.getD i 0 = (k i : ℝ) / T := by
      have hi : i.1 < B.freqs.length := by rw [hL]; exact i.2
      rw [getD_of_lt _ _ _ hi, hkget]
      simp [hfreqs]
    rw [hai, hfi, one_mul]
  simp_rw [hfun]
  exact PyrexNoise.mean_square_unit_cont T hT k hinj hk _ B.rms (by rw [Fintype.card_fin]; omega)

/-- `rms = √(k_B·T·R·(f_max − f_min))` when temperature and resistance are given, the requested
value when `rms_voltage` is given, an error otherwise -/
theorem C17_rms_thermal (T Rr fmin fmax v : ℝ) (tp rs : Option ℝ) :
    rmsOf none (some T) (some Rr) fmin fmax
      = some (Real.sqrt ((1.380649e-23 : ℝ) * T * Rr * (fmax - fmin))) ∧
    rmsOf (some v) tp rs fmin fmax = some v ∧
    rmsOf none none rs fmin fmax = none ∧ rmsOf none tp none fmin fmax = none := by
  refine ⟨rfl, rfl, rfl, ?_⟩
  cases tp <;> rfl

/-- the constructors store that value -/
theorem C17_rms_of_constructor :
    (∀ (n : Nat) (t0 t1 tL fmin fmax : ℝ) (spec : AmpSpec) (rv tp rs : Option ℝ) (uq : ℝ)
        (tape : List ℝ) (N : FFTNoise), mkFFT n t0 t1 tL fmin fmax spec rv tp rs uq tape = some N →
        rmsOf rv tp rs fmin fmax = some N.basis.rms) ∧
    (∀ (tF tL fmin fmax : ℝ) (spec : AmpSpec) (rv tp rs : Option ℝ) (uq : ℝ) (tape : List ℝ)
        (B : NoiseBasis), mkFull tF tL fmin fmax spec rv tp rs uq tape = some B →
        rmsOf rv tp rs fmin fmax = some B.rms) := by
  constructor
  · intro n t0 t1 tL fmin fmax spec rv tp rs uq tape N h
    obtain ⟨_, r, hr, rfl⟩ := mkFFT_eq_some _ _ _ _ _ _ _ _ _ _ _ _ _ h
    exact hr
  · intro tF tL fmin fmax spec rv tp rs uq tape B h
    obtain ⟨_, r, hr, rfl⟩ := mkFull_eq_some _ _ _ _ _ _ _ _ _ _ _ h
    exact hr

open MeasureTheory in
/-- default (Rayleigh) amplitudes give the requested RMS on average: for amplitudes `A_k` on any
probability space with **assumed second moment `E[A_k²] = 1`** (the nominal law of
`numpy.random.rayleigh(1/√2)`; hypothesis `hA2`), and phases independent of them and of each other,
uniform on a full turn, `E[f(t)²] = rms²` at every time `t` — for either sign convention of the
phase.  The phase integrals are proved (`Proofs/NoisePhase.lean`). -/
theorem C17_rayleigh_mean_square {Ω : Type} [MeasurableSpace Ω] (μ : Measure Ω)
    (n : ℕ) (hn : 0 < n) (A : Fin n → Ω → ℝ) (f : Fin n → ℝ) (rms t s : ℝ) (hs : s = 1 ∨ s = -1)
    (hint : ∀ i, Integrable (fun ω => A i ω ^ 2) μ)
    (hA2 : ∀ i, ∫ ω, A i ω ^ 2 ∂μ = 1) :
    ∫ ω, (∫ φ : Fin n → ℝ,
        (rms * Real.sqrt (2 / (n : ℝ)) * ∑ i, A i ω * Real.cos (2 * Real.pi * f i * t + s * φ i)) ^ 2
          ∂(Measure.pi fun _ : Fin n => PyrexNoise.phaseMeasure)) ∂μ = rms ^ 2 := by
  have hnR : (n : ℝ) ≠ 0 := by exact_mod_cast hn.ne'
  have hsq : Real.sqrt (2 / (n : ℝ)) ^ 2 = 2 / (n : ℝ) := Real.sq_sqrt (by positivity)
  have inner : ∀ ω, ∫ φ : Fin n → ℝ,
        (rms * Real.sqrt (2 / (n : ℝ)) * ∑ i, A i ω * Real.cos (2 * Real.pi * f i * t + s * φ i)) ^ 2
          ∂(Measure.pi fun _ : Fin n => PyrexNoise.phaseMeasure)
      = rms ^ 2 * (2 / (n : ℝ)) * ((1 / 2) * ∑ i, A i ω ^ 2) := by
    intro ω
    have hform : ∀ φ : Fin n → ℝ,
        (rms * Real.sqrt (2 / (n : ℝ)) * ∑ i, A i ω * Real.cos (2 * Real.pi * f i * t + s * φ i)) ^ 2
        = rms ^ 2 * (2 / (n : ℝ)) * (∑ i, A i ω * Real.cos (s * (2 * Real.pi * f i * t) + φ i)) ^ 2 := by
      intro φ
      have : ∀ i, Real.cos (2 * Real.pi * f i * t + s * φ i) = Real.cos (s * (2 * Real.pi * f i * t) + φ i) := by
        intro i
        rcases hs with rfl | rfl
        · simp
        · rw [← Real.cos_neg]; congr 1; ring
      simp_rw [this]
      rw [mul_pow, mul_pow, hsq]
    simp_rw [hform]
    rw [integral_const_mul, PyrexNoise.phase_mean_square]
  simp_rw [inner]
  rw [integral_const_mul, integral_const_mul, integral_finsetSum _ (fun i _ => hint i)]
  simp_rw [hA2]
  simp
  field_simp

/-- the Rayleigh law with the scale the source uses, `σ = 1/√2`, is a probability density on `(0,∞)` with
second moment 1 (for any `σ > 0`: total mass 1, second moment `2σ²`).  This discharges the hypothesis `hA2`
of `C17_rayleigh_mean_square` for amplitudes that have that density; what remains assumed is only that
`numpy.random.rayleigh(scale)` samples it (checked empirically by the `statistics` oracle). -/
theorem C17_rayleigh_second_moment :
    (∀ σ : ℝ, 0 < σ → (∀ x, 0 ≤ x → 0 ≤ PyrexNoise.rayleighPdf σ x) ∧
      ∫ x in Set.Ioi (0 : ℝ), PyrexNoise.rayleighPdf σ x = 1 ∧
      ∫ x in Set.Ioi (0 : ℝ), x ^ 2 * PyrexNoise.rayleighPdf σ x = 2 * σ ^ 2) ∧
    ∫ x in Set.Ioi (0 : ℝ), x ^ 2 * PyrexNoise.rayleighPdf (1 / Real.sqrt 2) x = 1 :=
  ⟨fun σ hσ => ⟨fun x hx => PyrexNoise.rayleighPdf_nonneg σ x hx, PyrexNoise.rayleigh_total_mass σ hσ,
    PyrexNoise.rayleigh_second_moment σ hσ⟩, PyrexNoise.rayleigh_second_moment_numpy⟩

/-! ## same basis ⇒ same waveform; values are a function of absolute time -/

/-- the waveform is determined by the published basis (and, for the FFT class, the grid
parameters): two objects that agree on these produce the same value at every time -/
theorem C17_same_basis_same_wave :
    (∀ (B₁ B₂ : NoiseBasis), B₁.freqs = B₂.freqs → B₁.amps = B₂.amps → B₁.phases = B₂.phases →
        B₁.rms = B₂.rms → ∀ t, fullAt B₁ t = fullAt B₂ t) ∧
    (∀ (N₁ N₂ : FFTNoise), N₁.basis.freqs = N₂.basis.freqs → N₁.basis.amps = N₂.basis.amps →
        N₁.basis.phases = N₂.basis.phases → N₁.basis.rms = N₂.basis.rms →
        N₁.fmin = N₂.fmin → N₁.fmax = N₂.fmax → N₁.unique = N₂.unique → N₁.nAll = N₂.nAll →
        N₁.dt = N₂.dt → N₁.start = N₂.start → N₁.stop = N₂.stop → ∀ t, N₁.at t = N₂.at t) := by
  constructor
  · intro B₁ B₂ h1 h2 h3 h4 t
    obtain ⟨f1, a1, p1, r1⟩ := B₁; obtain ⟨f2, a2, p2, r2⟩ := B₂
    simp only at h1 h2 h3 h4; subst h1 h2 h3 h4; rfl
  · intro N₁ N₂ h1 h2 h3 h4 h5 h6 h7 h8 h9 h10 h11 t
    obtain ⟨⟨f1, a1, p1, r1⟩, b1, c1, d1, e1, g1, s1, u1⟩ := N₁
    obtain ⟨⟨f2, a2, p2, r2⟩, b2, c2, d2, e2, g2, s2, u2⟩ := N₂
    simp only at h1 h2 h3 h4 h5 h6 h7 h8 h9 h10 h11
    subst h1 h2 h3 h4 h5 h6 h7 h8 h9 h10 h11; rfl

/-- `.values` and `.with_times(ts).values` are the pointwise evaluation of one function of absolute
time, so any two windows agree wherever they share a sample time (both classes) -/
theorem C17_absolute_time :
    (∀ (B : NoiseBasis) (ts : List ℝ), fullValues B ts = ts.map (fullAt B)) ∧
    (∀ (N : FFTNoise) (ts : List ℝ), N.values ts = ts.map N.at) ∧
    (∀ (N : FFTNoise) (ts ts' : List ℝ) (i j : Nat) (hi : i < ts.length) (hj : j < ts'.length),
        ts[i] = ts'[j] → (N.values ts)[i]'(by
            have : N.values ts = ts.map N.at := by
              unfold FFTNoise.values FFTNoise.at FFTNoise.atWithPeriod interpPeriodic; split_ifs <;> simp
            rw [this]; simpa using hi)
          = (N.values ts')[j]'(by
            have : N.values ts' = ts'.map N.at := by
              unfold FFTNoise.values FFTNoise.at FFTNoise.atWithPeriod interpPeriodic; split_ifs <;> simp
            rw [this]; simpa using hj)) := by
  have hv : ∀ (N : FFTNoise) (ts : List ℝ), N.values ts = ts.map N.at := by
    intro N ts
    unfold FFTNoise.values FFTNoise.at FFTNoise.atWithPeriod interpPeriodic
    split_ifs <;> simp
  refine ⟨fun _ _ => rfl, hv, ?_⟩
  intro N ts ts' i j hi hj h
  simp only [hv, List.getElem_map, h]

/-- a band of zero or negative width is rejected by both constructors, whatever else is given -/
theorem C17_band_rejected (n : Nat) (t0 t1 tL tF fmin fmax : ℝ) (spec : AmpSpec) (rv tp rs : Option ℝ)
    (uq : ℝ) (tape : List ℝ) (h : fmax ≤ fmin) :
    mkFFT n t0 t1 tL fmin fmax spec rv tp rs uq tape = none ∧
    mkFull tF tL fmin fmax spec rv tp rs uq tape = none := by
  constructor
  · unfold mkFFT; simp [h]
  · unfold mkFull; simp [h]

/-- nothing is remembered between evaluations: after the published basis of an object has been
replaced (as `io.py` does when it replays stored noise bases) every later evaluation, on any window,
is the evaluation of the object that was given that basis from the start -/
theorem C17_basis_replaced (N : FFTNoise) (B' : NoiseBasis) (ts : List ℝ) (B : NoiseBasis) :
    ({ N with basis := B' } : FFTNoise).values ts = ts.map ({ N with basis := B' } : FFTNoise).at ∧
    (∀ M : FFTNoise, M.basis = B' → M.fmin = N.fmin → M.fmax = N.fmax → M.unique = N.unique →
        M.nAll = N.nAll → M.dt = N.dt → M.start = N.start → M.stop = N.stop →
        ∀ t, M.at t = ({ N with basis := B' } : FFTNoise).at t) ∧
    fullValues B' ts = ts.map (fullAt B') ∧ (B = B' → fullValues B ts = fullValues B' ts) := by
  refine ⟨C17_absolute_time.2.1 _ ts, ?_, rfl, fun h => by rw [h]⟩
  intro M h1 h2 h3 h4 h5 h6 h7 h8 t
  exact C17_same_basis_same_wave.2 M ({ N with basis := B' } : FFTNoise) (by rw [h1]) (by rw [h1]) (by rw [h1])
    (by rw [h1]) h2 h3 h4 h5 h6 h7 h8 t

/-! ## non-vacuity -/

/-- 4 samples at `dt = 1`, band `[0.2, 0.3]`: the single in-band bin is `k = 1` (0.25), strictly
between DC and Nyquist -/
private noncomputable def exN : FFTNoise := ⟨⟨[1 * (1 / (4 * 1))], [1], [3 / 10], 2⟩, 1 / 5, 3 / 10, 1, 4, 1, 0, 3⟩

private theorem exN_mask : exN.mask = [false, true, false] := by
  simp [exN, FFTNoise.mask, bandMask, rfftfreq, List.range_succ, RofNat]
  norm_num

example : exN.WellFormed ∧ (∀ k ∈ bandIdxFrom 0 exN.mask, 0 < k ∧ 2 * k ≠ exN.nAll) ∧
    exN.length = ((exN.nAll : ℝ) - 1) * exN.dt ∧ 0 < exN.dt ∧ exN.basis.freqs.length ≠ 0 ∧
    (∀ i, exN.basis.amps.getD i 0 = 1 ∨ exN.basis.freqs.length ≤ i) := by
  refine ⟨⟨?_, rfl, rfl⟩, ?_, ?_, ?_, ?_, ?_⟩
  · rw [exN_mask]
    simp [exN, rfftfreq, List.range_succ, selectMask, RofNat]
  · rw [exN_mask]; simp [bandIdxFrom, exN]
  · simp [exN, FFTNoise.length, RofNat]; norm_num
  · simp [exN]
  · simp [exN]
  · intro i
    cases i with
    | zero => left; simp [exN]
    | succ i => right; simp [exN]

/-- the K4 situation exists: 4 samples, band `[0.2, 0.6]` holds bins 1 and 2 = Nyquist -/
private noncomputable def exK4 : FFTNoise :=
  ⟨⟨[1 * (1 / (4 * 1)), 2 * (1 / (4 * 1))], [1, 1], [3 / 10, 1 / 2], 2⟩, 1 / 5, 3 / 5, 1, 4, 1, 0, 3⟩

example : bandIdxFrom 0 exK4.mask = [1] ++ [2] ∧ exK4.nAll = 2 * 2 ∧ exK4.WellFormed := by
  have hm : exK4.mask = [false, true, true] := by
    simp [exK4, FFTNoise.mask, bandMask, rfftfreq, List.range_succ, RofNat]
    norm_num
  refine ⟨by rw [hm]; simp [bandIdxFrom], rfl, ⟨?_, rfl, rfl⟩⟩
  rw [hm]
  simp [exK4, rfftfreq, List.range_succ, selectMask, RofNat]

/-- the amplitude hypotheses of `C17_rayleigh_mean_square` are satisfiable: constant amplitudes 1
on the one-point probability space -/
example : ∀ i : Fin 3, ∫ _ω : Unit, ((fun (_ : Fin 3) (_ : Unit) => (1 : ℝ)) i _ω) ^ 2
    ∂(MeasureTheory.Measure.dirac ()) = 1 := by
  intro i; simp

/-- hypotheses of `C17_unit_amp_rms_full` are satisfiable: harmonics 2 and 5 of `1/T`, `T = 10` -/
example : ([2, 5] : List Nat).Nodup ∧ (∀ k ∈ ([2, 5] : List Nat), 0 < k) ∧
    (⟨[2 / 10, 5 / 10], [1, 1], [0, 1], 3⟩ : NoiseBasis).freqs
      = ([2, 5] : List Nat).map (fun (k : Nat) => (k : ℝ) / 10) := by
  refine ⟨by decide, by decide, ?_⟩
  simp
