import PyrexVerif.R.Geom
import PyrexVerif.R.Uniform
import PyrexVerif.D.LayerPaths
import PyrexVerif.Proofs.RayGeom
import PyrexVerif.Proofs.UniformImage
import PyrexVerif.Proofs.LayerPathsProofs
import Mathlib.Analysis.SpecialFunctions.Trigonometric.Inverse
import Mathlib.Tactic.LinearCombination
import Mathlib.Tactic.Linarith
import Mathlib.Tactic.FieldSimp
/-!
# C18 — uniform and layered tracers reduce to image geometry and the one-medium tracer

Theorems about the ℝ-reading of `twin/Uniform.body` (image construction, Fresnel coefficients, one step of
`_trace_path`, chaining) and about the discrete model `D/LayerPaths.lean` (`_build_path`).
-/
open PyrexR PyrexR.Geo PyrexR.Uni PyrexProofs

/-! ## layered ice: chaining, Snell, split media -/

/-- a layered solution is a continuous chain: every single-layer path starts where the previous one ends -/
theorem C18_chain_continuous (pts : List P3) (angles : List ℝ) (directs : List Bool) (i : Nat)
    (h : i + 1 < (subPaths pts angles directs).length) :
    ((subPaths pts angles directs)[i]'(by omega)).b = ((subPaths pts angles directs)[i + 1]'h).a := by
  induction pts generalizing angles directs i with
  | nil => simp [subPaths] at h
  | cons a rest ih =>
    cases rest with
    | nil => simp [subPaths] at h
    | cons b rest' =>
      cases angles with
      | nil => simp [subPaths] at h
      | cons t ts =>
        cases directs with
        | nil => simp [subPaths] at h
        | cons d ds =>
          cases i with
          | zero =>
            simp only [subPaths] at h ⊢
            cases rest' with
            | nil => simp [subPaths] at h
            | cons c rest'' =>
              cases ts with
              | nil => simp [subPaths] at h
              | cons t2 ts2 =>
                cases ds with
                | nil => simp [subPaths] at h
                | cons d2 ds2 => simp [subPaths]
          | succ j =>
            simp only [subPaths, List.length_cons] at h ⊢
            simp only [List.getElem_cons_succ]
            exact ih ts ds j (by omega)

/-- … the first one starts at the source, and the point list built by `chainPoints` ends at the receiver -/
theorem C18_chain_ends (p q : P3) (drs zs : List ℝ) :
    (chainPoints p q drs zs).head? = some p ∧ (chainPoints p q drs zs).getLast? = some q := by
  constructor
  · simp [chainPoints]
  · rw [chainPoints, ← List.cons_append, List.getLast?_concat]

/-- transmission through a boundary obeys Snell's law and keeps the vertical sense; beyond the critical angle there
is no path; a reflection first carries the angle to the boundary with Snell's law inside the layer and then mirrors it
(so the Snell invariant `n sin θ` is kept and the vertical sense reversed); in a uniform layer that is `θ ↦ π − θ` -/
theorem C18_snell_at_boundary (c : StepCtx) (θ θ' : ℝ) (h2 : c.two = false) (hθ0 : 0 ≤ θ) (hθ1 : θ ≤ Real.pi)
    (hn : 0 < c.nHere) (hn' : 0 < c.nNext) (hs : 0 < c.nStop) :
    (c.trans = true → stepAngle c θ = some θ' →
        c.nNext * Real.sin θ' = c.nHere * Real.sin θ ∧
        (θ < Real.pi / 2 → 0 ≤ θ' ∧ θ' ≤ Real.pi / 2) ∧ (Real.pi / 2 ≤ θ → Real.pi / 2 ≤ θ' ∧ θ' ≤ Real.pi)) ∧
    (c.trans = true → 1 < Real.sin θ * c.nHere / c.nNext → stepAngle c θ = none) ∧
    (c.trans = false → Real.sin θ * c.nHere / c.nStop ≤ 1 → stepAngle c θ = some θ' →
        c.nStop * Real.sin θ' = c.nHere * Real.sin θ ∧
        (θ < Real.pi / 2 → Real.pi / 2 ≤ θ' ∧ θ' ≤ Real.pi) ∧ (Real.pi / 2 ≤ θ → 0 ≤ θ' ∧ θ' ≤ Real.pi / 2)) ∧
    (c.trans = false → c.nHere = c.nStop → stepAngle c θ = some θ' → θ' = Real.pi - θ) := by
  have hsin0 : 0 ≤ Real.sin θ := Real.sin_nonneg_of_nonneg_of_le_pi hθ0 hθ1
  have hx0 : 0 ≤ Real.sin θ * c.nHere / c.nNext := by positivity
  refine ⟨?_, ?_, ?_, ?_⟩
  · intro ht hs
    simp only [stepAngle, h2, ht, Bool.false_eq_true, if_false, Bool.false_and, if_true, Rsin, Rasin, Rpi] at hs
    by_cases hgt : Real.sin θ * c.nHere / c.nNext > 1
    · simp [hgt] at hs
    · have hle : Real.sin θ * c.nHere / c.nNext ≤ 1 := not_lt.mp hgt
      have hsa := Real.sin_arcsin (by linarith : -1 ≤ Real.sin θ * c.nHere / c.nNext) hle
      have key : c.nNext * (Real.sin θ * c.nHere / c.nNext) = c.nHere * Real.sin θ := by field_simp
      have ha0 : 0 ≤ Real.arcsin (Real.sin θ * c.nHere / c.nNext) := Real.arcsin_nonneg.mpr hx0
      have ha1 := Real.arcsin_le_pi_div_two (Real.sin θ * c.nHere / c.nNext)
      simp only [hgt, if_false] at hs
      by_cases hlt : θ < Real.pi / 2
      · simp only [hlt, if_true, Option.some.injEq] at hs
        subst hs
        exact ⟨by rw [hsa, key], fun _ => ⟨ha0, ha1⟩, fun h => absurd hlt (not_lt.mpr h)⟩
      · simp only [hlt, if_false, Option.some.injEq] at hs
        subst hs
        refine ⟨by rw [Real.sin_pi_sub, hsa, key], fun h => absurd h hlt, fun _ => ⟨by linarith, by linarith⟩⟩
  · intro ht hgt
    simp [stepAngle, h2, ht, Rsin, hgt]
  · intro ht hle hst
    have hy0 : 0 ≤ Real.sin θ * c.nHere / c.nStop := by positivity
    have hsa := Real.sin_arcsin (by linarith : -1 ≤ Real.sin θ * c.nHere / c.nStop) hle
    have key : c.nStop * (Real.sin θ * c.nHere / c.nStop) = c.nHere * Real.sin θ := by field_simp
    have ha0 : 0 ≤ Real.arcsin (Real.sin θ * c.nHere / c.nStop) := Real.arcsin_nonneg.mpr hy0
    have ha1 := Real.arcsin_le_pi_div_two (Real.sin θ * c.nHere / c.nStop)
    have hnot : ¬ (1 < Real.sin θ * c.nHere / c.nStop) := not_lt.mpr hle
    simp only [stepAngle, h2, ht, Bool.false_eq_true, if_false, Bool.false_and, Rsin, Rasin, Rpi, hnot] at hst
    by_cases hne : c.nHere < c.nStop ∨ c.nStop < c.nHere
    · simp only [hne, if_true] at hst
      by_cases hlt : θ < Real.pi / 2
      · simp only [hlt, if_true] at hst
        split_ifs at hst
        simp only [Option.some.injEq] at hst
        subst hst
        exact ⟨by rw [Real.sin_pi_sub, hsa, key], fun _ => ⟨by linarith, by linarith⟩, fun h => absurd hlt (not_lt.mpr h)⟩
      · simp only [hlt, if_false] at hst
        split_ifs at hst
        simp only [Option.some.injEq] at hst
        subst hst
        refine ⟨?_, fun h => absurd h hlt, fun _ => ⟨by linarith, by linarith⟩⟩
        rw [show Real.pi - (Real.pi - Real.arcsin (Real.sin θ * c.nHere / c.nStop)) =
          Real.arcsin (Real.sin θ * c.nHere / c.nStop) by ring, hsa, key]
    · have heq : c.nHere = c.nStop := by
        rcases lt_trichotomy c.nHere c.nStop with h | h | h
        · exact absurd (Or.inl h) hne
        · exact h
        · exact absurd (Or.inr h) hne
      simp only [hne, if_false] at hst
      split_ifs at hst
      simp only [Option.some.injEq] at hst
      subst hst
      refine ⟨by rw [Real.sin_pi_sub, heq], fun h => ⟨by linarith, by linarith⟩, fun h => ⟨by linarith, by linarith⟩⟩
  · intro ht heq hst
    have hne : ¬ (c.nHere < c.nStop ∨ c.nStop < c.nHere) := by
      rw [heq]; simp
    simp only [stepAngle, h2, ht, Bool.false_eq_true, if_false, Bool.false_and, Rpi, hne] at hst
    split_ifs at hst
    simpa using hst.symm

/-- cutting a uniform medium: with equal indices on both sides the polar angle passes a cut unchanged … -/
theorem C18_split_uniform_same_angle (c : StepCtx) (θ : ℝ) (h2 : c.two = false) (ht : c.trans = true)
    (heq : c.nHere = c.nNext) (hn : 0 < c.nHere) (hθ0 : 0 ≤ θ) (hθ1 : θ ≤ Real.pi) :
    stepAngle c θ = some θ := by
  have hsin0 : 0 ≤ Real.sin θ := Real.sin_nonneg_of_nonneg_of_le_pi hθ0 hθ1
  have hx : Real.sin θ * c.nHere / c.nNext = Real.sin θ := by rw [← heq]; field_simp
  have hle : ¬ Real.sin θ > 1 := not_lt.mpr (Real.sin_le_one θ)
  simp only [stepAngle, h2, ht, Bool.false_eq_true, if_false, Bool.false_and, if_true, Rsin, Rasin, Rpi, hx, hle]
  by_cases hlt : θ < Real.pi / 2
  · simp only [hlt, if_true]
    rw [Real.arcsin_sin (by linarith) (le_of_lt hlt)]
  · simp only [hlt, if_false]
    have : Real.sin θ = Real.sin (Real.pi - θ) := (Real.sin_pi_sub θ).symm
    rw [this, Real.arcsin_sin (by linarith [not_lt.mp hlt]) (by linarith [not_lt.mp hlt])]
    congr 1; ring

/-- … and the radial distances of the pieces add up to the radial distance of the unsplit layer, so the launch-angle
equation `distance(angle) = rho` of the split medium has the same roots as that of the unsplit one -/
theorem C18_split_uniform_same_root (θ z0 zb z1 : ℝ) (hθ : θ ≠ Real.pi / 2) :
    (match uRadial θ [z0, zb], uRadial θ [zb, z1], uRadial θ [z0, z1] with
      | Rad.val r1, Rad.val r2, Rad.val r => r1 + r2 = r
      | _, _, _ => False) := by
  have hne : ¬ eqR θ (Rpi / 2) := by
    intro h; exact hθ (le_antisymm h.1 h.2)
  simp only [uRadial, hne, if_false, diffs, List.map_cons, List.map_nil, listSum, List.foldl_cons, List.foldl_nil]
  ring

/-- cutting an exponential (or any) layer at `zb`: with the same Snell invariant on both sides of the cut the closed-form
integrals telescope — for every antiderivative `F` (radial distance, path length, time of flight at fixed `β`) -/
theorem C18_split_exponential_telescopes (F : ℝ → ℝ → ℝ) (β β' z0 zb z1 n θ θ' : ℝ)
    (hβ : β = n * Real.sin θ) (hβ' : β' = n * Real.sin θ') (hsnell : n * Real.sin θ' = n * Real.sin θ) :
    (F β zb - F β z0) + (F β' z1 - F β' zb) = F β z1 - F β z0 := by
  have : β' = β := by rw [hβ, hβ', hsnell]
  rw [this]; ring

/-- crossing a cut between equal indices transmits the full amplitude: `t_s = t_p = 1` -/
theorem C18_unit_transmission_equal_index (n θ : ℝ) (hn : 0 < n) (hθ0 : 0 ≤ θ) (hθ1 : θ < Real.pi / 2) :
    fresnelTransmit n n θ = (⟨1, 0⟩, ⟨1, 0⟩) := by
  have hc : 0 < Real.cos θ := Real.cos_pos_of_mem_Ioo ⟨by linarith [Real.pi_pos], hθ1⟩
  have h1 : n / n * Real.sin θ = Real.sin θ := by field_simp
  have hle : Real.sin θ ≤ 1 := Real.sin_le_one θ
  have hsq : Real.sqrt (1 - Real.sin θ * Real.sin θ) = Real.cos θ := by
    have : 1 - Real.sin θ * Real.sin θ = Real.cos θ ^ 2 := by
      have := Real.sin_sq_add_cos_sq θ; nlinarith
    rw [this, Real.sqrt_sq (le_of_lt hc)]
  have hd : n * Real.cos θ + n * Real.cos θ ≠ 0 := by positivity
  simp only [fresnelTransmit, cosRefracted, Rsin, Rcos, Rsqrt, h1, hle, if_true, hsq, Cx.div, Cx.add, Cx.smul,
    mul_zero, add_zero, zero_mul, sub_zero]
  refine Prod.ext ?_ ?_ <;> (simp only [Cx.mk.injEq]; constructor <;> field_simp <;> ring)

/-- … and reflects nothing: `r_s = r_p = 0`, so a "reflection" off an artificial cut carries zero amplitude -/
theorem C18_zero_reflection_equal_index (n θ : ℝ) (hn : 0 < n) (hθ0 : 0 ≤ θ) (hθ1 : θ < Real.pi / 2) :
    fresnelReflect n n θ = (⟨0, 0⟩, ⟨0, 0⟩) := by
  have hc : 0 < Real.cos θ := Real.cos_pos_of_mem_Ioo ⟨by linarith [Real.pi_pos], hθ1⟩
  have h1 : n / n * Real.sin θ = Real.sin θ := by field_simp
  have hle : Real.sin θ ≤ 1 := Real.sin_le_one θ
  have hsq : Real.sqrt (1 - Real.sin θ * Real.sin θ) = Real.cos θ := by
    have : 1 - Real.sin θ * Real.sin θ = Real.cos θ ^ 2 := by
      have := Real.sin_sq_add_cos_sq θ; nlinarith
    rw [this, Real.sqrt_sq (le_of_lt hc)]
  simp only [fresnelReflect, cosRefracted, Rsin, Rcos, Rsqrt, h1, hle, if_true, hsq, Cx.div, Cx.add, Cx.sub,
    Cx.smul, mul_zero, add_zero, zero_mul, sub_self, zero_div]

/-- time of flight of a uniform path is `n L / c` -/
theorem C18_uniform_tof (I : UIce) (z0 : ℝ) (pts : List P3) (h0 : I.lo ≤ z0) (h1 : z0 ≤ I.hi) :
    uTof I z0 pts = I.n * pathLen pts / speedOfLight := by
  have a1 : ¬ z0 < I.lo := not_lt.mpr h0
  have a2 : ¬ z0 > I.hi := not_lt.mpr h1
  simp [uTof, UIce.index, a1, a2]

/-! ## uniform ice: the image source -/

/-- the direct path is the straight segment -/
theorem C18_direct_length (I : UIce) (p q : P3) (up : Bool) :
    uPointsDir I p q 0 up = [p, q] ∧ pathLen (uPointsDir I p q 0 up) = dist3 p q := by
  simp [uPointsDir, pathLen, segLens, listSum]

/-- a path with `m+1` reflections is as long as the straight segment to the receiver mirrored `m+1` times:
`Σ |segmentᵢ| = √(ρ² + (Σ dzᵢ)²)` and `Σ dzᵢ = ±(z_image − z_source)` -/
theorem C18_image_length (I : UIce) (p q : P3) (m : Nat) (up : Bool)
    (hlh : I.lo ≤ I.hi) (hp0 : I.lo ≤ p.z) (hp1 : p.z ≤ I.hi) (hq0 : I.lo ≤ q.z) (hq1 : q.z ≤ I.hi)
    (hS : 0 < listSum (uDzs I p.z q.z (m + 1) up)) :
    pathLen (uPointsDir I p q (m + 1) up) =
      Real.sqrt (rho p q ^ 2 + listSum (uDzs I p.z q.z (m + 1) up) ^ 2) ∧
    listSum (uDzs I p.z q.z (m + 1) up) =
      (if up then 1 else -1) * (mirrorZ I.lo I.hi up (m + 1) q.z - p.z) ∧
    pathLen (uPointsDir I p q (m + 1) up) = dist3 p ⟨q.x, q.y, mirrorZ I.lo I.hi up (m + 1) q.z⟩ := by
  have h1 := image_length I p q m up hlh hp0 hp1 hq0 hq1 hS
  have h2 := image_depth I p.z q.z m up
  refine ⟨h1, h2, ?_⟩
  rw [h1, h2]
  unfold dist3 rho
  simp only [Rsqrt]
  congr 1
  rw [Real.sq_sqrt (by nlinarith [mul_self_nonneg (q.x - p.x), mul_self_nonneg (q.y - p.y)])]
  cases up <;> simp <;> ring

/-- mirror law: every leg has the same slope `dr/|dz| = ρ/Σdz` in the same horizontal direction, so the angle of
incidence equals the angle of reflection at every reflection point -/
theorem C18_equal_slopes (I : UIce) (p q : P3) (m : Nat) (up : Bool)
    (hlh : I.lo ≤ I.hi) (hp0 : I.lo ≤ p.z) (hp1 : p.z ≤ I.hi) (hq0 : I.lo ≤ q.z) (hq1 : q.z ≤ I.hi)
    (hS : listSum (uDzs I p.z q.z (m + 1) up) ≠ 0) :
    ∀ ab ∈ pairs (uPointsDir I p q (m + 1) up),
      ab.2.x - ab.1.x = rho p q / listSum (uDzs I p.z q.z (m + 1) up) * |ab.2.z - ab.1.z| * Real.cos (phi p q) ∧
      ab.2.y - ab.1.y = rho p q / listSum (uDzs I p.z q.z (m + 1) up) * |ab.2.z - ab.1.z| * Real.sin (phi p q) :=
  (image_main I p q m up hlh hp0 hp1 hq0 hq1 hS).1

/-- the path starts at the source, ends at the receiver, and its `m+1` intermediate points lie alternately on the
upper and lower boundary, starting with the one the ray initially heads to -/
theorem C18_reflection_points_on_boundaries (I : UIce) (p q : P3) (m : Nat) (up : Bool) :
    (uPointsDir I p q (m + 1) up).map (fun P => P.z) = p.z :: (altZ I.lo I.hi up (m + 1) ++ [q.z]) ∧
    (uPointsDir I p q (m + 1) up).head? = some p ∧ (uPointsDir I p q (m + 1) up).getLast? = some q := by
  rw [uPointsDir_succ]
  refine ⟨?_, by simp, by rw [← List.cons_append, List.getLast?_concat]⟩
  simp [uMid_z]

/-- helper: the emitted direction is that of the straight line to the mirrored receiver -/
private theorem emitted_main (I : UIce) (p q : P3) (m : Nat) (up : Bool)
    (hS : 0 < listSum (uDzs I p.z q.z (m + 1) up)) (hf : 0 < firstLeg I p.z up) :
    uEmitted p q (m + 1) (uPointsDir I p q (m + 1) up) =
      PyrexR.Uni.normalize ⟨q.x - p.x, q.y - p.y, mirrorZ I.lo I.hi up (m + 1) q.z - p.z⟩ := by
  set S := listSum (uDzs I p.z q.z (m + 1) up) with hSdef
  set k := rho p q / S with hk
  set σ : ℝ := if up then 1 else -1 with hσ
  have hdepth : mirrorZ I.lo I.hi up (m + 1) q.z - p.z = σ * S := by
    have h := image_depth I p.z q.z m up
    rw [← hSdef, ← hσ] at h
    rw [h]; cases up <;> simp [hσ]
  obtain ⟨hxq, hyq⟩ := x_of_polar p q
  have hkS : S * k = rho p q := by rw [hk]; field_simp
  -- the line to the image
  have hR : (⟨q.x - p.x, q.y - p.y, mirrorZ I.lo I.hi up (m + 1) q.z - p.z⟩ : P3) =
      ⟨S * (k * Real.cos (phi p q)), S * (k * Real.sin (phi p q)), S * σ⟩ := by
    rw [hdepth]
    congr 1
    · rw [← mul_assoc, hkS]; linarith
    · rw [← mul_assoc, hkS]; linarith
    · ring
  -- the first leg
  have hbnd : (if up then I.hi else I.lo) - p.z = firstLeg I p.z up * σ := by
    cases up <;> simp [firstLeg, hσ]
  have hL : uEmitted p q (m + 1) (uPointsDir I p q (m + 1) up) =
      PyrexR.Uni.normalize ⟨firstLeg I p.z up * (k * Real.cos (phi p q)), firstLeg I p.z up * (k * Real.sin (phi p q)),
        firstLeg I p.z up * σ⟩ := by
    rw [uPointsDir_succ]
    simp only [uEmitted, Nat.succ_ne_zero, false_and, if_false, List.map_cons, uMid, List.cons_append, sub3]
    congr 1
    rw [← hbnd]
    congr 1 <;> (simp only [← hSdef, ← hk]; ring)
  rw [hL, hR]
  rw [normalize_scale (firstLeg I p.z up) hf ⟨k * Real.cos (phi p q), k * Real.sin (phi p q), σ⟩,
    normalize_scale S hS ⟨k * Real.cos (phi p q), k * Real.sin (phi p q), σ⟩]

/-- directions of a path with `m+1` reflections: the emitted direction is that of the first leg = the straight line
from the source to the receiver mirrored `m+1` times; the received direction is that of the last leg = the same line
with its vertical component reversed once per reflection (`(-1)^(m+1)`), i.e. the line from the mirrored source to the
receiver; hence received = emitted with the vertical component multiplied by `(-1)^(m+1)` -/
theorem C18_uniform_directions (I : UIce) (p q : P3) (m : Nat) (up : Bool)
    (hS : 0 < listSum (uDzs I p.z q.z (m + 1) up)) (hf : 0 < firstLeg I p.z up)
    (hl : 0 < lastLeg I q.z (m + 1) up) :
    uEmitted p q (m + 1) (uPointsDir I p q (m + 1) up) =
      PyrexR.Uni.normalize ⟨q.x - p.x, q.y - p.y, mirrorZ I.lo I.hi up (m + 1) q.z - p.z⟩ ∧
    uReceived p q (m + 1) (uPointsDir I p q (m + 1) up) =
      PyrexR.Uni.normalize ⟨q.x - p.x, q.y - p.y, (-1) ^ (m + 1) * (mirrorZ I.lo I.hi up (m + 1) q.z - p.z)⟩ ∧
    uReceived p q (m + 1) (uPointsDir I p q (m + 1) up) =
      ⟨(uEmitted p q (m + 1) (uPointsDir I p q (m + 1) up)).x,
       (uEmitted p q (m + 1) (uPointsDir I p q (m + 1) up)).y,
       (-1) ^ (m + 1) * (uEmitted p q (m + 1) (uPointsDir I p q (m + 1) up)).z⟩ := by
  have he := emitted_main I p q m up hS hf
  have hr := received_main I p q m up hS hl
  refine ⟨he, hr, ?_⟩
  rw [hr, he]
  have ht : ((-1 : ℝ) ^ (m + 1)) * ((-1 : ℝ) ^ (m + 1)) = 1 := by
    rw [← pow_add, ← two_mul, pow_mul]; norm_num
  exact normalize_flipz _ ht ⟨q.x - p.x, q.y - p.y, mirrorZ I.lo I.hi up (m + 1) q.z - p.z⟩

/-- on its range bounds (included) a uniform ice has its own index, not the outside one: an endpoint or a reflection
point exactly on a bound travels with `n`, so `tof = n L / c` there too -/
theorem C18_index_on_bounds (I : UIce) (hlh : I.lo ≤ I.hi) : I.index I.lo = I.n ∧ I.index I.hi = I.n := by
  have a1 : ¬ I.lo < I.lo := lt_irrefl _
  have a2 : ¬ I.lo > I.hi := not_lt.mpr hlh
  have a3 : ¬ I.hi < I.lo := not_lt.mpr hlh
  have a4 : ¬ I.hi > I.hi := lt_irrefl _
  constructor <;> simp [UIce.index, a2, a3]

/-! ### the points the hypotheses above exclude -/

/-- NEGATION of the emitted-direction claim on the excluded set `firstLeg = 0` (finding K22): a source exactly on the
bound its reflected path first heads to makes the first leg empty, and the emitted direction is the zero vector
(not a unit vector, not the direction to the mirrored receiver) -/
theorem C18_emitted_zero_on_boundary (I : UIce) (p q : P3) (m : Nat) (up : Bool)
    (hf : firstLeg I p.z up = 0) :
    uEmitted p q (m + 1) (uPointsDir I p q (m + 1) up) = ⟨0, 0, 0⟩ := by
  have hbnd : (if up then I.hi else I.lo) - p.z = 0 := by
    cases up <;> simp [firstLeg] at hf ⊢ <;> linarith
  rw [uPointsDir_succ]
  simp only [uEmitted, Nat.succ_ne_zero, false_and, if_false, List.map_cons, uMid, List.cons_append, sub3, hf,
    mul_zero, add_zero, zero_mul, add_sub_cancel_left, hbnd]
  simp [PyrexR.Uni.normalize, eqR, Rsqrt]

/-- the error branch: a path object with reflections and launch angle exactly `0` (both endpoints on the bound the path
heads to: `Σdz = 0`) has no points — the `ValueError("Invalid initial direction")` of `_points` -/
theorem C18_points_reject_zero_angle (I : UIce) (p q : P3) (m : Nat) : uPoints I p q (m + 1) 0 = none := by
  simp [uPoints, uDirOfTheta]

/-- exactly horizontal launch in a uniform layer (excluded from `C18_split_uniform_same_root`): between equal depths
`_get_radial_distance` answers `None` ("take the rest of rho"), between different depths NaN (no such path) -/
theorem C18_horizontal_radial (z0 z1 : ℝ) :
    uRadial (Real.pi / 2) [z0, z0] = Rad.rest ∧ (z0 ≠ z1 → uRadial (Real.pi / 2) [z0, z1] = Rad.nan) := by
  have he : eqR (Real.pi / 2) (Rpi / 2) := ⟨le_refl _, le_refl _⟩
  constructor
  · simp [uRadial, he, diffs, eqR]
  · intro hne
    have : ¬ eqR (z1 - z0) 0 := by
      intro h; apply hne; have := le_antisymm h.1 h.2; linarith
    simp [uRadial, he, diffs, this]

/-- two-element groups (turn-over inside a gradient layer, excluded from `C18_snell_at_boundary` by `two = false`): unless
the `None`-index guard fires, the step is the single-group step applied to the mirrored angle -/
theorem C18_step_two_group (c : StepCtx) (θ : ℝ) (h2 : c.two = true)
    (hg : (guardHit c (Real.pi - θ) && c.turnAtBoundary) = false) :
    stepAngle c θ = stepAngle { c with two := false } (Real.pi - θ) := by
  simp only [stepAngle, h2, if_true, Bool.true_and, Rpi, hg, Bool.false_eq_true, if_false, Bool.false_and]
  rfl

/-! ## the enumeration of layer index paths -/

open PyrexD.LayerPaths in
/-- every leaf of `_build_path` extends the given prefix by a walk that starts in the current layer, moves at most one
layer per step inside `[0, max_level]`, and repeats a level (reflects) exactly `reflections` times — in particular at
most `max_reflections` times for every prefix used by `_potential_paths` -/
theorem C18_build_path_valid (M : Nat) (pre : List Nat) (l : Nat) (down : Bool) (r : Nat) (p : List Nat)
    (hp : p ∈ buildPath M pre l down r) :
    ∃ w, p = pre ++ l :: w ∧ stepsOK (l :: w) = true ∧ (∀ x ∈ l :: w, x ≤ M) ∧ repeats (l :: w) = r := by
  obtain ⟨w, hw, hb⟩ := (mem_buildPath M pre l down r p).mp hp
  exact ⟨w, hw, isBounce_valid M (l :: w) down r hb⟩

open PyrexD.LayerPaths in
/-- completeness, for every `max_reflections` (the design asked for `≤ 2` only): every walk accepted by the independent
test `isBounce` — one layer per step in the current direction, reversal (repeated level) anywhere while reflections
remain and forced at the edges of the stack, ending exactly when it leaves the stack with none left — is produced -/
theorem C18_build_path_complete (M : Nat) (pre : List Nat) (l : Nat) (down : Bool) (r : Nat) (w : List Nat)
    (hb : isBounce M (l :: w) down r = true) : pre ++ l :: w ∈ buildPath M pre l down r :=
  (mem_buildPath M pre l down r _).mpr ⟨w, rfl, hb⟩

/-! ## non-vacuity -/

/-- a concrete two-reflection geometry satisfies the hypotheses of the image theorems -/
example : let I : UIce := ⟨1.5, -100, 0, some 1, some 1.2⟩
    I.lo ≤ I.hi ∧ I.lo ≤ (-30 : ℝ) ∧ (-30 : ℝ) ≤ I.hi ∧ I.lo ≤ (-60 : ℝ) ∧ (-60 : ℝ) ≤ I.hi ∧
    0 < listSum (uDzs I (-30) (-60) 2 true) ∧ 0 < firstLeg I (-30) true ∧ 0 < lastLeg I (-60) 2 true := by
  simp only [uDzs, listSum, firstLeg, lastLeg]
  norm_num

/-- the enumeration is non-empty and `isBounce` accepts a genuine walk with one reflection -/
example : PyrexD.LayerPaths.isBounce 2 [1, 0, 0, 1, 2] false 1 = true ∧
    [1, 0, 0, 1, 2] ∈ PyrexD.LayerPaths.buildPath 2 [] 1 false 1 :=
  ⟨by decide, C18_build_path_complete 2 [] 1 false 1 [0, 0, 1, 2] (by decide)⟩

/-- a transmitting step with distinct indices below the critical angle exists -/
example : ∃ c : StepCtx, c.two = false ∧ c.trans = true ∧ 0 < c.nHere ∧ 0 < c.nNext ∧
    stepAngle c 0 = some 0 :=
  ⟨⟨false, true, 1.5, 1.7, 1.5, false, false, false, false, false⟩, rfl, rfl, by norm_num, by norm_num, by
    simp [stepAngle, Rsin, Rasin, Rpi]; positivity⟩

/-- `C18_chain_continuous` is about chains with at least two single-layer paths -/
example : 0 + 1 < (subPaths [⟨0, 0, -100⟩, ⟨10, 0, -50⟩, ⟨30, 0, -20⟩] [0.3, 0.5] [true, true]).length := by
  simp [subPaths]

/-- a reflecting step in a uniform layer (`nHere = nStop`) exists and mirrors the angle (reflection clauses of
`C18_snell_at_boundary`), and an index-matched cut (`C18_split_uniform_same_angle`) -/
example : stepAngle ⟨false, false, 1.5, 1.5, 1.5, false, false, false, false, false⟩ 1 = some (Real.pi - 1) ∧
    (⟨false, true, 1.5, 1.5, 1.5, false, false, false, false, false⟩ : StepCtx).nHere =
      (⟨false, true, 1.5, 1.5, 1.5, false, false, false, false, false⟩ : StepCtx).nNext := by
  constructor
  · simp [stepAngle, guardHit, Rpi]
  · rfl

/-- hypotheses of the Fresnel theorems and of `C18_split_uniform_same_root` -/
example : (0 : ℝ) < 1.78 ∧ (0 : ℝ) ≤ 0.5 ∧ (0.5 : ℝ) < Real.pi / 2 ∧ (0.5 : ℝ) ≠ Real.pi / 2 := by
  have := Real.two_le_pi
  refine ⟨by norm_num, by norm_num, by linarith, by linarith⟩

/-- `C18_split_exponential_telescopes`: the same angle on both sides of a cut satisfies its hypotheses -/
example (n θ : ℝ) : n * Real.sin θ = n * Real.sin θ := rfl

/-- a uniform ice with `lo ≤ hi` (hypothesis of `C18_index_on_bounds`, `C18_uniform_tof`) -/
example : ((⟨1.5, -100, 0, some 1, some 1.2⟩ : UIce).lo ≤ (⟨1.5, -100, 0, some 1, some 1.2⟩ : UIce).hi) := by norm_num

/-- the excluded sets are inhabited: a source on the surface heading up has an empty first leg -/
example : firstLeg (⟨1.5, -100, 0, some 1, some 1.3⟩ : UIce) 0 true = 0 := by simp [firstLeg]
