import PyrexVerif.D.Detector
import PyrexVerif.Proofs.DetectorTrig
import PyrexVerif.Proofs.DetectorBuild
/-!
# C19 — detector composition visits every antenna once; triggers and clears as the union

Property theorems about the model `PyrexVerif/D/Detector.lean` (core Lean, no Mathlib).
The model is tied to `pyrex/detector.py` by the exact differential run of `harness/props/C19.py`.
-/
open Det

/-- `flatten` over a concatenation of subsets is the concatenation of the flattenings
(`flatten` is a monoid homomorphism on the list of subsets). -/
theorem C19_flatten_append (a b : List Node) : flattenL (a ++ b) = flattenL a ++ flattenL b := by
  induction a with
  | nil => simp [flattenL]
  | cons x xs ih => simp [flattenL, ih, List.append_assoc]

/-- `len`, iteration and non-negative indexing agree with each other. -/
theorem C19_iter_len_getitem_agree (n : Node) (i : Nat) (h : i < len n) :
    getItem n (Int.ofNat i) = some ((flatten n)[i]'h) ∧ len n = (flatten n).length := by
  constructor
  · simp [getItem] at *
    exact List.getElem?_eq_getElem h
  · rfl

/-- negative indices count from the end, `-len … -1` are valid. -/
theorem C19_getitem_negative (n : Node) (k : Nat) (hk : 0 < k) (h : k ≤ len n) :
    getItem n (-(k : Int)) = (flatten n)[len n - k]? := by
  have h0 : ¬ (0 : Int) ≤ -(k : Int) := by omega
  have h1 : (-(-(k : Int))).toNat = k := by simp
  unfold getItem
  simp only [h0, if_false, h1]
  unfold len at h ⊢
  simp [h]

/-- every successful `a + b` contains exactly the antennas of `a` followed by those of `b`,
whichever of the five dispatch cases applies. -/
theorem C19_add_flat (a b c : Node) (h : add a b = some c) : flatten c = flatten a ++ flatten b := by
  unfold add mkComb at h
  cases a <;> cases b <;> simp at h <;>
    first
    | (obtain ⟨_, rfl⟩ := h; simp [flatten, flattenL, C19_flatten_append])
    | skip

/-- the same for `a += b` -/
theorem C19_iadd_flat (a b c : Node) (h : iadd a b = some c) : flatten c = flatten a ++ flatten b := by
  unfold iadd at h
  cases a <;> cases b <;> simp at h <;>
    first
    | exact C19_add_flat _ _ _ h
    | (unfold mkComb at h; simp at h; obtain ⟨_, rfl⟩ := h; simp [flatten, flattenL, C19_flatten_append])

/-- combination is associative in the flattened content: whenever both bracketings succeed they
list the same antennas in the same order (also through `+=`). -/
theorem C19_add_assoc_flat (a b c ab abc bc abc' : Node)
    (h1 : add a b = some ab) (h2 : add ab c = some abc)
    (h3 : add b c = some bc) (h4 : add a bc = some abc') :
    flatten abc = flatten abc' := by
  rw [C19_add_flat _ _ _ h2, C19_add_flat _ _ _ h1, C19_add_flat _ _ _ h4, C19_add_flat _ _ _ h3,
    List.append_assoc]

theorem C19_iadd_assoc_flat (a b c ab abc bc abc' : Node)
    (h1 : iadd a b = some ab) (h2 : iadd ab c = some abc)
    (h3 : add b c = some bc) (h4 : add a bc = some abc') :
    flatten abc = flatten abc' := by
  rw [C19_iadd_flat _ _ _ h2, C19_iadd_flat _ _ _ h1, C19_add_flat _ _ _ h4, C19_add_flat _ _ _ h3,
    List.append_assoc]

private theorem foldlM_add_flat (r : List Node) (x s : Node) (h : r.foldlM add x = some s) :
    flatten s = flatten x ++ (r.map flatten).flatten := by
  induction r generalizing x with
  | nil => simp at h; subst h; simp
  | cons y ys ih =>
    simp only [List.foldlM_cons, Option.bind_eq_bind] at h
    cases hxy : add x y with
    | none => simp [hxy] at h
    | some xy =>
      simp only [hxy, Option.bind_some] at h
      rw [ih xy h, C19_add_flat _ _ _ hxy]
      simp [List.append_assoc]

/-- `sum` of detectors lists the antennas of its arguments in order. -/
theorem C19_sum_flat (xs : List Node) (s : Node) (h : Det.sum xs = some s) :
    flatten s = (xs.map flatten).flatten := by
  cases xs with
  | nil => simp [Det.sum] at h
  | cons x r =>
    simp only [Det.sum] at h
    split at h
    · rw [foldlM_add_flat r x s h]; simp
    · simp at h

/-- every antenna is visited exactly once: multiplicities add up, so distinct antennas stay
distinct under any combination. -/
theorem C19_each_antenna_once (a b c : Node) (h : add a b = some c) (x : Ant) :
    (flatten c).count x = (flatten a).count x + (flatten b).count x := by
  rw [C19_add_flat _ _ _ h, List.count_append]

theorem C19_nodup_preserved (a b c : Node) (h : add a b = some c)
    (hd : (flatten a ++ flatten b).Nodup) : (flatten c).Nodup := by
  rw [C19_add_flat _ _ _ h]; exact hd

/-- antennas above the surface are rejected by every combination … -/
theorem C19_rejects_above_surface (a b : Node) (hd : isDetector a = true ∨ isDetector b = true)
    (x : Ant) (hx : x ∈ flatten a ++ flatten b) (ha : x.above = true) : add a b = none := by
  cases hab : add a b with
  | none => rfl
  | some c =>
    exfalso
    have hf := C19_add_flat _ _ _ hab
    have hv : valid c = true := by
      unfold add mkComb at hab
      cases a <;> cases b <;> simp [isDetector] at hab hd <;>
        first
        | (obtain ⟨hv, rfl⟩ := hab; simpa [valid] using hv)
        | skip
    simp only [valid, List.all_eq_true] at hv
    have := hv x (by rw [hf]; exact hx)
    simp [ha] at this

/-- … and nothing else is: with a detector on either side and all antennas below the surface the
combination succeeds. -/
theorem C19_accepts_below_surface (a b : Node) (hd : isDetector a = true ∨ isDetector b = true)
    (hv : ∀ x ∈ flatten a ++ flatten b, x.above = false) : (add a b).isSome = true := by
  have key : ∀ s, flattenL s = flatten a ++ flatten b → mkComb s = some (.comb s) := by
    intro s hs
    unfold mkComb
    have : valid (.comb s) = true := by
      simp only [valid, flatten, hs, List.all_eq_true]
      intro x hx; simp [hv x hx]
    simp [this]
  unfold add
  cases a <;> cases b <;> simp [isDetector] at hd ⊢ <;>
    (rw [key _ (by simp [flatten, flattenL, C19_flatten_append])]; simp)

/-! ### a refused in-place addition (repair F23) -/

/-- a refused `+=` leaves the detector exactly as it was … -/
theorem C19_refused_iadd_rolls_back (self : List Node) (other : Node)
    (h : (iaddExec self other).2 = false) : (iaddExec self other).1 = self := by
  unfold iaddExec at h ⊢
  by_cases hv : valid (.comb (appendOther self other)) = true <;> simp_all

/-- … an accepted one contains no antenna above the surface … -/
theorem C19_accepted_iadd_valid (self : List Node) (other : Node)
    (h : (iaddExec self other).2 = true) : valid (.comb (iaddExec self other).1) = true := by
  unfold iaddExec at h ⊢
  by_cases hv : valid (.comb (appendOther self other)) = true <;> simp_all

/-- … hence NO sequence of in-place additions, accepted or refused, ever leaves an antenna above the
surface inside a detector that had none (invariant by induction over the history of `+=` calls). -/
theorem C19_iadd_history_keeps_valid (others : List Node) (self : List Node)
    (h0 : valid (.comb self) = true) :
    valid (.comb (others.foldl (fun s o => (iaddExec s o).1) self)) = true := by
  induction others generalizing self with
  | nil => simpa using h0
  | cons o r ih =>
    simp only [List.foldl_cons]
    apply ih
    by_cases h : (iaddExec self o).2 = true
    · exact C19_accepted_iadd_valid self o h
    · have h' : (iaddExec self o).2 = false := by simpa using h
      rw [C19_refused_iadd_rolls_back self o h']; exact h0

/-- the statement order before the repair (append, test, raise) did NOT have this invariant: witness -/
theorem C19_prerepair_iadd_keeps_rejected_antenna :
    let bad : Ant := ⟨9, false, false, true⟩
    let r := iaddExecPre [.ant ⟨1, false, false, false⟩] (.ant bad)
    r.2 = false ∧ bad ∈ flattenL r.1 := by
  decide

example : (iaddExec [.ant ⟨1, false, false, false⟩] (.ant ⟨9, false, false, true⟩)).2 = false ∧
    flattenL (iaddExec [.ant ⟨1, false, false, false⟩] (.ant ⟨9, false, false, true⟩)).1
      = [⟨1, false, false, false⟩] := by decide

/-! ### triggers -/

-- `allDefault n`: every detector in the tree keeps the default any-antenna trigger (it accepts `**kwargs`);
-- defined in `Proofs/DetectorTrig.lean`.

mutual
private theorem trig_any (mc : Bool) : (n : Node) → allDefault n = true →
    triggered mc n = (flatten n).any (hitOf mc)
  | .ant a, _ => by simp [triggered, flatten]
  | .lst xs, _ => by simp [triggered, flatten]
  | .det _ s acc st, h => by
      simp only [allDefault, Bool.and_eq_true] at h
      simp [triggered, flatten, detMC, h.1]
  | .comb s, h => by
      simp only [allDefault] at h
      simp only [triggered, flatten]
      exact trigL_any mc s h
private theorem trigL_any (mc : Bool) : (s : List Node) → allDefault.allDefaultL s = true →
    triggeredL mc s = (flattenL s).any (hitOf mc)
  | [], _ => by simp [triggeredL, flattenL]
  | n :: r, h => by
      simp only [allDefault.allDefaultL, Bool.and_eq_true] at h
      simp [triggeredL, flattenL, trig_any mc n h.1, trigL_any mc r h.2]
end

/-- the default trigger of any nesting is true exactly when some antenna is hit — by Monte-Carlo
truth when that is requested. -/
theorem C19_triggered_iff_any (mc : Bool) (n : Node) (h : allDefault n = true) :
    triggered mc n = true ↔ ∃ a ∈ flatten n, hitOf mc a = true := by
  rw [trig_any mc n h]; simp

mutual
private theorem clear_flat : (n : Node) → flatten (clear n) = (flatten n).map clearAnt
  | .ant a => by simp [clear, flatten]
  | .lst xs => by simp [clear, flatten]
  | .det _ s _ _ => by simp [clear, flatten, clearL_flat s]
  | .comb s => by simp [clear, flatten, clearL_flat s]
private theorem clearL_flat : (s : List Node) → flattenL (clearL s) = (flattenL s).map clearAnt
  | [] => by simp [clearL, flattenL]
  | n :: r => by simp [clearL, flattenL, clear_flat n, clearL_flat r]
end

/-- `clear` clears every antenna of the detector and nothing else changes. -/
theorem C19_clear_all (n : Node) :
    flatten (clear n) = (flatten n).map clearAnt ∧
    (∀ a ∈ flatten (clear n), a.hit = false ∧ a.hitMC = false) ∧
    ∀ mc, triggered mc (clear n) = false ∨ allDefault (clear n) = false := by
  refine ⟨clear_flat n, ?_, ?_⟩
  · intro a ha
    rw [clear_flat] at ha
    simp only [List.mem_map] at ha
    obtain ⟨b, _, rfl⟩ := ha
    simp [clearAnt]
  · intro mc
    by_cases hd : allDefault (clear n) = true
    · left
      rw [trig_any mc _ hd, clear_flat]
      simp [hitOf, clearAnt]
    · right; simpa using hd

/-- the statement-by-statement model of `CombinedDetector.triggered` that the driver runs against the
real code (`Det.trig`: keyword forwarding, `TypeError` propagation, retry loop, short-circuit) returns,
for every nesting of default-trigger detectors and every keyword set, exactly the any-antenna-hit
answer — unless the driver's recursion fuel ran out, which it reports instead of an answer. -/
theorem C19_exact_trigger_is_any_hit (fuel : Nat) (n : Node) (kw : List String) (mc : Bool)
    (hd : allDefault n = true) (hdet : isDetector n = true) :
    (trig fuel n kw mc).1 = .fuel ∨
    (trig fuel n kw mc).1 = .ok ((flatten n).any (hitOf (mc && kw.contains rmt))) := by
  have h := (trig_agrees fuel).1 n kw mc hd hdet
  rw [trig_any _ n hd] at h
  exact h

/-! ### keyword stripping -/

private theorem filter_ne_length_lt (kw : List String) (bad : String) (h : bad ∈ kw) :
    (kw.filter (· ≠ bad)).length < kw.length := by
  rw [List.length_filter_lt_length_iff_exists]
  exact ⟨bad, h, by simp⟩

/-- the retry loop terminates (one keyword is removed per failed call) and the sub-detector is
finally called with exactly the keywords it accepts, in their original order. -/
theorem C19_kwarg_strip_result (accepts : List String) (fuel : Nat) (kw : List String)
    (hf : kw.length < fuel) :
    stripLoop accepts fuel kw = some (kw.filter (accepts.contains ·)) := by
  induction fuel generalizing kw with
  | zero => omega
  | succ f ih =>
    unfold stripLoop
    cases hfind : kw.find? (fun k => !accepts.contains k) with
    | none =>
      simp only
      rw [List.find?_eq_none] at hfind
      congr 1
      symm
      rw [List.filter_eq_self]
      intro k hk
      have := hfind k hk
      simpa using this
    | some bad =>
      simp only
      have hmem := List.mem_of_find?_eq_some hfind
      have hbad := List.find?_some hfind
      have hlt := filter_ne_length_lt kw bad hmem
      rw [ih _ (by omega)]
      congr 1
      rw [List.filter_filter]
      apply List.filter_congr
      intro k _
      by_cases hk : k = bad
      · subst hk; simpa using hbad
      · simp [hk]

/-- number of failed calls before the successful one is at most the number of keywords -/
theorem C19_kwarg_strip_terminates (accepts kw : List String) :
    (stripLoop accepts (kw.length + 1) kw).isSome = true := by
  rw [C19_kwarg_strip_result accepts _ kw (Nat.lt_succ_self _)]; rfl

/-- keyword arguments of `build_antennas` reach exactly the sub-detectors that accept them: with
differing signatures each sub-detector gets the keywords that are parameters of its own method, in
their original order; with identical signatures everything is passed down unchanged (and a keyword
they do not take is an error rather than silently dropped). -/
theorem C19_build_kwargs_routed (subs : List (List String)) (kw : List String) :
    (∀ p r, subs = p :: r → r.all (· == p) = false →
      buildRoute subs kw = some (subs.map (fun q => kw.filter (q.contains ·)))) ∧
    (∀ p r, subs = p :: r → r.all (· == p) = true → kw.all (p.contains ·) = true →
      buildRoute subs kw = some (subs.map (fun _ => kw))) ∧
    (∀ p r, subs = p :: r → r.all (· == p) = true → kw.all (p.contains ·) = false →
      buildRoute subs kw = none) := by
  refine ⟨?_, ?_, ?_⟩ <;> intro p r hs <;> subst hs <;> intro h
  · simp [buildRoute, h]
  · intro h2; simp only [buildRoute, h, h2, if_true]
  · intro h2; simp only [buildRoute, h, h2, if_true]; simp

/-- nested build routing: when every detector below a node shares one `build_antennas` signature
(however deeply nested or however it was assembled), every one of them receives exactly the caller's
keywords, and a keyword that signature does not take is a `TypeError` rather than being dropped. -/
theorem C19_build_nested_uniform (ps kw : List String) (n : BNode) (hu : uniformB ps n = true) :
    (kw.all (ps.contains ·) = true → bbuild n kw = some ((bleaves n).map (fun t => (t, kw)))) ∧
    (kw.all (ps.contains ·) = false → bbuild n kw = none) :=
  ⟨fun hk => bbuild_uniform_ok ps kw hk n hu, fun hk => bbuild_uniform_err ps kw hk n hu⟩

/-- with differing signatures a parent hands each sub-detector the keywords of the signature it
ADVERTISES: a leaf gets the keywords it accepts, a nested group sharing one signature gets (all of
it) the keywords of that signature … -/
theorem C19_build_hetero_children (subs : List BNode) (kw : List String)
    (hm : sigsMatch (bsigL subs) = false) (i : Nat) (c : BNode) (hc : subs[i]? = some c)
    (ps : List String) (hu : uniformB ps c = true) (r : List (Nat × List String))
    (hr : bbuild (.comb subs) kw = some r) :
    ∀ t ∈ bleaves c, (t, kw.filter (ps.contains ·)) ∈ r := by
  simp only [bbuild, hm] at hr
  have key : ∀ (l : List BNode) (j : Nat) (res : List (Nat × List String)),
      l[j]? = some c → bbuildL l false kw = some res →
      ∀ t ∈ bleaves c, (t, kw.filter (ps.contains ·)) ∈ res := by
    intro l
    induction l with
    | nil => intro j res h; simp at h
    | cons x xs ih =>
      intro j res hj hres
      simp only [bbuildL, Bool.false_eq_true, if_false] at hres
      cases hx : bbuild x (keepKw (bsig x) kw) with
      | none => simp [hx] at hres
      | some a =>
        cases hxs : bbuildL xs false kw with
        | none => simp [hx, hxs] at hres
        | some b =>
          simp only [hx, hxs, Option.some.injEq] at hres
          subst hres
          cases j with
          | zero =>
            simp only [List.getElem?_cons_zero, Option.some.injEq] at hj
            subst hj
            have hsig := bsig_uniform ps x hu
            rw [hsig] at hx
            simp only [keepKw] at hx
            have hall : (kw.filter (ps.contains ·)).all (ps.contains ·) = true := by
              simp [List.all_eq_true]
            rw [bbuild_uniform_ok ps _ hall x hu] at hx
            cases hx
            intro t ht
            simp only [List.mem_append, List.mem_map]
            exact Or.inl ⟨t, ht, rfl⟩
          | succ j' =>
            simp only [List.getElem?_cons_succ] at hj
            intro t ht
            exact List.mem_append_right _ (ih j' b hj hxs t ht)
  exact key subs i r hc hr

/-- … but a nested group whose own members have differing signatures advertises the generic
`(*args, **kwargs)` and therefore receives NO keyword from such a parent: keywords accepted two levels
down do not arrive (known finding K16, reproduced on the real code by `known_probes`). -/
theorem C19_build_generic_group_gets_nothing :
    bbuild (.comb [.comb [.leaf 1 ["alpha"], .leaf 2 ["beta"]], .leaf 3 ["gamma"]])
        ["alpha", "beta", "gamma"] = some [(1, []), (2, []), (3, ["gamma"])] ∧
    bbuild (.comb [.leaf 1 ["alpha"], .leaf 2 ["beta"]]) ["alpha", "beta"]
        = some [(1, ["alpha"]), (2, ["beta"])] := by decide

/-! ### non-vacuity: the hypotheses above are met by concrete detectors -/
private def a1 : Ant := ⟨1, false, false, false⟩
private def a2 : Ant := ⟨2, true, false, false⟩
private def a3 : Ant := ⟨3, false, true, false⟩
private def up : Ant := ⟨4, false, false, true⟩
private def d1 : Node := .det 1 [.ant a1, .ant a2] [] true
private def d2 : Node := .det 2 [.det 3 [.ant a3] ["thr"] false] ["require_mc_truth"] false

example : (do
    let ab ← add d1 d2; let abc ← add ab (.ant a1)
    let bc ← add d2 (.ant a1); let abc' ← add d1 bc
    pure (flatten abc == flatten abc' && (flatten abc).length == 4)) = some true := by decide
example : add d1 (.ant up) = none ∧ isDetector d1 = true := by decide
example : allDefault d1 = true ∧ triggered false d1 = true ∧ triggered true d1 = false := by decide
example : stripLoop ["a"] 4 ["x", "a", "y"] = some ["a"] := by decide
example : trig 100 (.comb [d1, d2]) [rmt, "thr"] true =
    (.ok true, [(1, ["thr", rmt]), (2, [rmt])]) := by decide
example : buildRoute [["antenna_class", "p"], ["antenna_class", "q"]] ["antenna_class", "q", "z"] =
    some [["antenna_class"], ["antenna_class", "q"]] := by decide
example : allDefault (.comb [d1, .lst [a3]]) = true ∧
    (trig 50 (.comb [d1, .lst [a3]]) [rmt, "x"] true).1 = .ok true := by decide
example : uniformB ["a", "g"] (.comb [.comb [.leaf 1 ["a", "g"]], .leaf 2 ["a", "g"]]) = true ∧
    bbuild (.comb [.comb [.leaf 1 ["a", "g"]], .leaf 2 ["a", "g"]]) ["g"] = some [(1, ["g"]), (2, ["g"])] := by decide
example : sigsMatch (bsigL [.comb [.leaf 1 ["a"], .leaf 4 ["a"]], .leaf 2 ["b"]]) = false ∧
    bbuild (.comb [.comb [.leaf 1 ["a"], .leaf 4 ["a"]], .leaf 2 ["b"]]) ["a", "b"]
      = some [(1, ["a"]), (4, ["a"]), (2, ["b"])] := by decide
