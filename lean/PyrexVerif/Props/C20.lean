import PyrexVerif.Gen.Refs
import PyrexVerif.Gen.Env
/-!
# C20 — the package uses only library interfaces present in its declared dependency range

`Gen/Refs.lean` (every reference from pyrex's source into numpy/scipy/h5py/stdlib, with file, line and
a `guarded` flag) and `Gen/Env.lean` (`dir()` of every touched module of the INSTALLED distributions)
are regenerated from `/repo` and the environment on every run by `harness/extract/refs.py`.
The property quantifies over exactly this finite table, so the kernel-checked `decide` below is a proof
of it for the current tree; the translator's completeness is trusted (DESIGN.md §6 C20, §7).
-/
open Gen

/-- does the installed module `m` have attribute `a` -/
def envHas (m a : String) : Bool :=
  match Env.modules.lookup m with
  | some ns => ns.contains a
  | none => false

def refOk (r : Refs.Ref) : Bool := r.guarded || envHas r.module r.attr
def refNotTooNew (r : Refs.Ref) : Bool := r.guarded || !Refs.tooNew.contains (r.module, r.attr)
def impOk (i : Refs.Imp) : Bool :=
  i.guarded || (if i.optional then Refs.optionalFiles.contains i.file
                else i.declared && (Env.modules.lookup i.module).isSome)

/-- every unguarded reference resolves in the installed numpy / scipy / h5py / standard library -/
theorem C20_all_refs_resolve :
    ∀ r ∈ Refs.refs, r.guarded = true ∨ envHas r.module r.attr = true := by
  have h : Refs.refs.all refOk = true := by decide +kernel
  intro r hr
  have := (List.all_eq_true.mp h) r hr
  simpa [refOk] using this

/-- no unguarded reference uses a name that is absent at the lower end of the declared range
(numpy ≥ 1.17, scipy ≥ 1.4, h5py ≥ 3.0, Python ≥ 3.6; the list of such names is modelled knowledge) -/
theorem C20_no_ref_newer_than_declared_minimum :
    ∀ r ∈ Refs.refs, r.guarded = true ∨ (r.module, r.attr) ∉ Refs.tooNew := by
  have h : Refs.refs.all refNotTooNew = true := by decide +kernel
  intro r hr
  have := (List.all_eq_true.mp h) r hr
  simp only [refNotTooNew, Bool.or_eq_true, Bool.not_eq_true', List.contains_eq_mem,
    decide_eq_false_iff_not] at this
  exact this

/-- every imported external module is part of the standard library or of `install_requires` in setup.py
(`declared`; the list is re-read from setup.py on every run) and importable in the installed set, and
optional dependencies (PySpice, matplotlib) are imported only by the files documented as needing them -/
theorem C20_imports_resolve :
    ∀ i ∈ Refs.imports, i.guarded = true ∨
      (i.optional = true ∧ i.file ∈ Refs.optionalFiles) ∨
      (i.optional = false ∧ i.declared = true ∧ (Env.modules.lookup i.module).isSome = true) := by
  have h : Refs.imports.all impOk = true := by decide +kernel
  intro i hi
  have := (List.all_eq_true.mp h) i hi
  simp only [impOk, Bool.or_eq_true] at this
  rcases this with g | g
  · exact Or.inl g
  · right
    cases ho : i.optional <;> simp [ho] at g ⊢ <;> exact g

/-- every source file parses with the grammar of the lowest Python version that setup.py declares as
supported (`python_requires`), as far as Python's own `ast.parse(feature_version=…)` models the
differences (assignment expressions, positional-only parameters, pattern matching, parenthesised context
managers, exception groups, type statements); the table is regenerated on every run -/
theorem C20_syntax_within_declared_python :
    ∀ f ∈ Refs.syntaxTable, f.2 = none := by
  have h : Refs.syntaxTable.all (fun f => f.2.isNone) = true := by decide +kernel
  intro f hf
  have := (List.all_eq_true.mp h) f hf
  cases h2 : f.2 <;> simp [h2] at this ⊢

/-- is keyword `k` accepted by the installed callable `c` (callables whose signature cannot be introspected are not
decided here: they are absent from the table) -/
def kwAccepted (c k : String) : Bool :=
  match Env.signatures.lookup c with
  | some (names, varkw) => varkw || names.contains k
  | none => true

def kwOk (r : Refs.KwRef) : Bool := r.guarded || kwAccepted r.callee r.keyword

/-- every keyword argument that the source passes BY NAME to a numpy / scipy / h5py / standard-library callable is a
parameter of that callable in the installed library (a renamed or removed parameter such as `np.reshape(newshape=…)`
fails exactly like a removed attribute does, although the attribute chain itself still resolves) -/
theorem C20_call_keywords_accepted :
    ∀ r ∈ Refs.kwrefs, r.guarded = true ∨ kwAccepted r.callee r.keyword = true := by
  have h : Refs.kwrefs.all kwOk = true := by decide +kernel
  intro r hr
  have := (List.all_eq_true.mp h) r hr
  simpa [kwOk] using this

/-- optional dependencies are only needed by the features documented as requiring them, at CALL time too: no function
that runs without the optional dependency (it is defined outside every `if …__available__:` block and does not start
with an `if not …__available__: raise` guard) uses a module-level name that is bound only inside such a block -/
theorem C20_optional_names_confined : Refs.optionalLeaks = [] := by decide +kernel

/-- every object that the package enters with a `with` statement is KNOWN to support the context-manager protocol in the
installed libraries: it is the result of a documented context-manager function (`open`, `tarfile.open`, …), an instance
of a class of the installed numpy / scipy / h5py / standard library that defines `__enter__` and `__exit__`
(`np.errstate`), or an instance of a class of the package that defines them. An interface can exist as a NAME over the
whole declared range while the protocol of the object it returns does not (h5py 3.9 removed the context-manager
protocol of `Dataset.astype(...)`): every attribute resolves, and only this table sees the difference -/
theorem C20_with_items_support_protocol :
    ∀ w ∈ Refs.withItems, w.resolved = true := by
  have h : Refs.withItems.all (fun w => w.resolved) = true := by decide +kernel
  intro w hw
  exact (List.all_eq_true.mp h) w hw

/-- every numpy type name that the source writes as a STRING literal (`dtype='…'`, `.astype('…')`, `np.dtype('…')`) is
understood by the installed numpy: a library name that only occurs inside a string is an interface all the same
(`'float_'` was removed together with `np.float_`) -/
theorem C20_dtype_literals_understood :
    ∀ d ∈ Refs.dtypeLiterals, d.2.2.2 = true := by
  have h : Refs.dtypeLiterals.all (fun d => d.2.2.2) = true := by decide +kernel
  intro d hd
  exact (List.all_eq_true.mp h) d hd

/-! non-vacuity: the tables are not empty and contain unguarded references that are checked -/
example : 100 < Refs.refs.length ∧ 10 < Env.modules.length := by decide +kernel
example : (Refs.refs.filter (fun r => !r.guarded)).length > 100 := by decide +kernel
example : envHas "numpy" "float_" = false ∧ envHas "numpy" "float64" = true := by decide +kernel
-- attribute references on the results of numpy array constructors (`np.asarray(x).attr`) are rows of
-- `Refs.refs` with module `numpy.ndarray`, checked against `dir(numpy.ndarray)` by `C20_all_refs_resolve`
example : envHas "numpy.ndarray" "ptp" = false ∧ envHas "numpy.ndarray" "T" = true := by decide +kernel
example : ["numpy", "scipy", "h5py"].all (Refs.declaredRequirements.contains ·) = true := by decide +kernel
example : (Refs.imports.filter (fun i => !i.declared && !i.optional)).length = 0 := by decide +kernel
example : 20 < Refs.syntaxTable.length ∧ Refs.declaredPython = (3, 6) := by decide +kernel
example : 20 < Refs.kwrefs.length ∧ 10 < Env.signatures.length := by decide +kernel
example : 5 < Refs.optionalOnlyNames := by decide +kernel
example : 5 < Refs.withItems.length := by decide +kernel
-- the source has no numpy type name as a string literal at present, so `C20_dtype_literals_understood` ranges over an
-- empty table; the row shape it would reject (what seeded change C20_15 produces):
example : ([("pyrex/signals.py", 1, "float_", false)] : List (String × Nat × String × Bool)).all (fun d => d.2.2.2) = false := by
  decide
