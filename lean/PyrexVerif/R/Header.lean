import Mathlib.Analysis.SpecialFunctions.Trigonometric.Inverse
import Mathlib.Analysis.SpecialFunctions.Trigonometric.Arctan
import Mathlib.Analysis.SpecialFunctions.Complex.Arg
import Mathlib.Analysis.SpecialFunctions.Log.Basic
import Mathlib.Analysis.SpecialFunctions.Pow.Real
import Mathlib.Analysis.SpecialFunctions.Sqrt
/-! Real twin header: the scalar type `R` is ℝ, every primitive is Mathlib's.
GENERATED FILE (gen_twins.py) — edit `twin/*.body` / `twin/header.real.lean`. -/
noncomputable section
namespace PyrexR
abbrev R := ℝ
abbrev Rexp (x : R) : R := Real.exp x
abbrev Rlog (x : R) : R := Real.log x
abbrev Rsqrt (x : R) : R := Real.sqrt x
abbrev Rsin (x : R) : R := Real.sin x
abbrev Rcos (x : R) : R := Real.cos x
abbrev Rtan (x : R) : R := Real.tan x
abbrev Rasin (x : R) : R := Real.arcsin x
abbrev Racos (x : R) : R := Real.arccos x
abbrev Ratan (x : R) : R := Real.arctan x
abbrev Ratan2 (y x : R) : R := Complex.arg ⟨x, y⟩
abbrev Rabs (x : R) : R := |x|
abbrev Rpow (x y : R) : R := x ^ y
abbrev Rpi : R := Real.pi
abbrev RofNat (n : Nat) : R := (n : ℝ)
abbrev RofInt (n : Int) : R := (n : ℝ)
/-- ⌊x⌋ as an integer -/
abbrev Rfloor (x : R) : Int := ⌊x⌋
/-- ⌈x⌉ as an integer -/
abbrev Rceil (x : R) : Int := ⌈x⌉
/-- truncation toward zero, Python's `int(x)` -/
abbrev Rtrunc (x : R) : Int := if 0 ≤ x then ⌊x⌋ else ⌈x⌉

end PyrexR
end
