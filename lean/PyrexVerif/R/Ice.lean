import Mathlib.Analysis.SpecialFunctions.Trigonometric.Inverse
import Mathlib.Analysis.SpecialFunctions.Trigonometric.Arctan
import Mathlib.Analysis.SpecialFunctions.Complex.Arg
import Mathlib.Analysis.SpecialFunctions.Log.Basic
import Mathlib.Analysis.SpecialFunctions.Pow.Real
import Mathlib.Analysis.SpecialFunctions.Sqrt
/-! Real twin header: the scalar type `R` is ℝ, every primitive is Mathlib's.
GENERATED FILE (gen_twins.py) — edit `twin/*.body` / `twin/header.real.lean`. -/
noncomputable section
namespace PyrexR
abbrev R := ℝ
abbrev Rexp (x : R) : R := Real.exp x
abbrev Rlog (x : R) : R := Real.log x
abbrev Rsqrt (x : R) : R := Real.sqrt x
abbrev Rsin (x : R) : R := Real.sin x
abbrev Rcos (x : R) : R := Real.cos x
abbrev Rtan (x : R) : R := Real.tan x
abbrev Rasin (x : R) : R := Real.arcsin x
abbrev Racos (x : R) : R := Real.arccos x
abbrev Ratan (x : R) : R := Real.arctan x
abbrev Ratan2 (y x : R) : R := Complex.arg ⟨x, y⟩
abbrev Rabs (x : R) : R := |x|
abbrev Rpow (x y : R) : R := x ^ y
abbrev Rpi : R := Real.pi
abbrev RofNat (n : Nat) : R := (n : ℝ)
abbrev RofInt (n : Int) : R := (n : ℝ)
/-- ⌊x⌋ as an integer -/
abbrev Rfloor (x : R) : Int := ⌊x⌋
/-- ⌈x⌉ as an integer -/
abbrev Rceil (x : R) : Int := ⌈x⌉
/-- truncation toward zero, Python's `int(x)` -/
abbrev Rtrunc (x : R) : Int := if 0 ≤ x then ⌊x⌋ else ⌈x⌉

-- ===== body (identical in both twins) =====
/-! # Exponential-profile ice (`pyrex/ice_model.py`: AntarcticIce and subclasses) — index part

`n(z) = n0 − k·exp(a·z)` inside `[lo, hi]`, the declared indices outside.  The optional
`index_above`/`index_below` (Python `None` = "continue with the boundary value") are `Option R`. -/

structure Ice where
  n0 : R
  k  : R
  a  : R
  lo : R
  hi : R
  above : Option R
  below : Option R

/-- the exponential profile, without range handling -/
def Ice.profile (I : Ice) (z : R) : R := I.n0 - I.k * Rexp (I.a * z)

def Ice.indexAbove (I : Ice) : R := match I.above with
  | some n => n
  | none => I.profile I.hi
def Ice.indexBelow (I : Ice) : R := match I.below with
  | some n => n
  | none => I.profile I.lo

/-- `AntarcticIce.index` (scalar branch; the array branch is the pointwise map, see `indexArr`) -/
def Ice.index (I : Ice) (z : R) : R :=
  if z < I.lo then I.indexBelow else if z > I.hi then I.indexAbove else I.profile z

def Ice.indexArr (I : Ice) (zs : List R) : List R := zs.map I.index

/-- z-component of `AntarcticIce.gradient` -/
def Ice.gradient (I : Ice) (z : R) : R := -I.k * I.a * Rexp (I.a * z)

/-- `AntarcticIce.depth_with_index` (scalar branch) -/
def Ice.depthWithIndex (I : Ice) (n : R) : R :=
  if n < I.index I.hi then I.hi else if n > I.index I.lo then I.lo
  else Rlog ((I.n0 - n) / I.k) / I.a

def Ice.contains (I : Ice) (z : R) : Bool := I.lo ≤ z && z ≤ I.hi

end PyrexR
end
