/-!
Decimal literals as they are written in the Python source (core Lean only, no Mathlib).

The translators in `harness/extract` emit every numeric constant as `⟨m, e⟩` meaning `m · 10^e`
with `|m| < 2^53` and `|e| ≤ 22`: both `m` and `10^|e|` are then exactly representable doubles, so the
Float reading `RofInt m * RofNat (10^e)` / `RofInt m / RofNat (10^-e)` is one correctly rounded
operation on exact operands, i.e. the same double CPython parses from the literal.  The ℝ reading is
the exact rational.
-/
namespace PyrexGen

structure Dec where
  m : Int
  e : Int
deriving Repr, DecidableEq, Inhabited

end PyrexGen
