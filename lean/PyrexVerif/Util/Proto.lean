/-!
Line protocol shared by all drivers (core Lean only, no Mathlib).

One request per input line, whitespace-separated tokens; one reply line per request, prefixed by
`@ ` so that elaborator messages on stdout can never be mistaken for replies.
Floats travel as the decimal value of their IEEE-754 bit pattern (`Float.toBits`), never as decimal
text, so the exchange with Python is bit exact.
-/
namespace Proto

def tokens (line : String) : List String :=
  (line.splitOn " ").filter (· ≠ "") |>.map (fun s => (s.replace "\n" "").replace "\r" "") |>.filter (· ≠ "")

def floatOfTok (s : String) : Option Float :=
  s.toNat?.map (fun n => Float.ofBits (UInt64.ofNat n))

def tokOfFloat (x : Float) : String := toString x.toBits.toNat

def intOfTok (s : String) : Option Int := s.toInt?

def natOfTok (s : String) : Option Nat := s.toNat?

def floatsOfToks (ts : List String) : Option (List Float) := ts.mapM floatOfTok
def intsOfToks (ts : List String) : Option (List Int) := ts.mapM intOfTok
def natsOfToks (ts : List String) : Option (List Nat) := ts.mapM natOfTok

def joinFloats (xs : List Float) : String := " ".intercalate (xs.map tokOfFloat)
def joinInts (xs : List Int) : String := " ".intercalate (xs.map toString)
def joinNats (xs : List Nat) : String := " ".intercalate (xs.map toString)

/-- stateless loop: every line is answered independently -/
partial def loop (h : IO.FS.Stream) (out : IO.FS.Stream) (handle : List String → String) : IO Unit := do
  let line ← h.getLine
  if line.isEmpty then return ()
  out.putStrLn ("@ " ++ handle (tokens line))
  loop h out handle

/-- stateful loop -/
partial def loopS {σ : Type} (h : IO.FS.Stream) (out : IO.FS.Stream) (st : σ)
    (handle : σ → List String → σ × String) : IO Unit := do
  let line ← h.getLine
  if line.isEmpty then return ()
  let (st', r) := handle st (tokens line)
  out.putStrLn ("@ " ++ r)
  loopS h out st' handle

def main1 (handle : List String → String) : IO Unit := do
  loop (← IO.getStdin) (← IO.getStdout) handle

def mainS {σ : Type} (init : σ) (handle : σ → List String → σ × String) : IO Unit := do
  loopS (← IO.getStdin) (← IO.getStdout) init handle

end Proto
