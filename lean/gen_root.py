#!/usr/bin/env python3
"""PyrexVerif.lean (the library root) imports every module under PyrexVerif/ so that a plain
`lake build` checks everything."""
import os
HERE = os.path.dirname(os.path.abspath(__file__))
mods = []
for root, dirs, files in os.walk(os.path.join(HERE, "PyrexVerif")):
    for f in files:
        if f.endswith(".lean"):
            rel = os.path.relpath(os.path.join(root, f), HERE)[:-5].replace(os.sep, ".")
            mods.append(rel)
text = "".join("import %s\n" % m for m in sorted(mods))
p = os.path.join(HERE, "PyrexVerif.lean")
if not os.path.exists(p) or open(p).read() != text:
    open(p, "w").write(text)
