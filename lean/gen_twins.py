#!/usr/bin/env python3
"""header + body -> PyrexVerif/F/<X>.lean (Float twin) and PyrexVerif/R/<X>.lean (real twin).

A body file `twin/<X>.body` is Lean source over the opaque scalar type `R` and the operations
declared identically by both headers (`Rexp`, `Rlog`, `Rsqrt`, `Rsin`, `Rcos`, ...).  It may start
with lines `--import <Module>`; they become `import PyrexVerif.F.<Module>` / `...R.<Module>`.
Both twins are textually identical below the header; that is asserted here."""
import os
import re
import sys

HERE = os.path.dirname(os.path.abspath(__file__))
TW = os.path.join(HERE, "twin")


def write_if_changed(path, text):
    os.makedirs(os.path.dirname(path), exist_ok=True)
    try:
        if open(path).read() == text:
            return
    except FileNotFoundError:
        pass
    open(path, "w").write(text)


def main():
    if not os.path.isdir(TW):
        return 0
    hf = open(os.path.join(TW, "header.float.lean")).read()
    hr = open(os.path.join(TW, "header.real.lean")).read()
    for fn in sorted(os.listdir(TW)):
        if not fn.endswith(".body"):
            continue
        name = fn[:-5]
        body = open(os.path.join(TW, fn)).read()
        imps = re.findall(r"(?m)^--import\s+(\S+)\s*$", body)
        gimps = re.findall(r"(?m)^--genimport\s+(\S+)\s*$", body)
        for kind, hdr in (("F", hf), ("R", hr)):
            lines = ["import PyrexVerif.%s.%s" % (kind, i) for i in imps]
            lines += ["import %s" % g.replace("{K}", kind) for g in gimps]
            hdr_imports = re.findall(r"(?m)^import\s+\S+\s*$", hdr)
            hdr_rest = re.sub(r"(?m)^import\s+\S+\s*\n", "", hdr)
            text = ("\n".join(hdr_imports + lines) + "\n" + hdr_rest.replace("{NS}", "Pyrex" + kind)
                    + "\n-- ===== body (identical in both twins) =====\n" + body
                    + "\nend Pyrex%s\n" % kind + ("end\n" if kind == "R" else ""))
            write_if_changed(os.path.join(HERE, "PyrexVerif", kind, name + ".lean"), text)
        f = open(os.path.join(HERE, "PyrexVerif", "F", name + ".lean")).read().split("-- ===== body")[1]
        r = open(os.path.join(HERE, "PyrexVerif", "R", name + ".lean")).read().split("-- ===== body")[1]
        if f.split("end PyrexF")[0] != r.split("end PyrexR")[0]:
            print("twin bodies differ for", name)
            return 1
    return 0


if __name__ == "__main__":
    sys.exit(main())
